"""Locks of the code under test, owned by the simulator.

Callers are real threads of which exactly one runs (kernel.Sched).  A caller that is parked while it holds a
`threading.Lock` would deadlock the simulation as soon as the running caller tries to take the same lock: the
runner blocks inside the C-level acquire while it holds the baton.  So locks *created by the code under test*
are replaced by `SimLock`: acquiring a lock that is held by a parked caller hands the baton to the holder and
retries when the baton comes back -- which is exactly what a blocked thread does, with the simulator choosing
who runs.  Locks created by the standard library, by third-party packages or by the harness stay real.

`install()` must run before y0 is imported (module-level locks are created at import time).  No y0 import here.
"""

from __future__ import annotations

import os
import sys
import threading
from typing import Any

REAL_LOCK = threading.Lock
REAL_RLOCK = threading.RLock
CURRENT = threading.local()  # .sched / .name of the simulated caller running in this thread (set by kernel.Sched)
HERE = os.path.dirname(os.path.abspath(__file__)) + os.sep
_FOREIGN = tuple(
    p for p in {sys.prefix + os.sep, sys.base_prefix + os.sep, getattr(sys, "exec_prefix", sys.prefix) + os.sep, HERE} if p
)
STATS = {"created": 0, "acquires": 0, "blocked_yields": 0}


class SimDeadlock(RuntimeError):
    """Every live caller is blocked on a lock (a genuine deadlock in the code under test)."""


class SimLock:
    """A lock of the code under test; real outside a simulated run, scheduler-aware inside one."""

    def __init__(self, real: Any) -> None:
        self._real = real
        self._owner: str | None = None
        self._depth = 0

    def acquire(self, blocking: bool = True, timeout: float = -1) -> bool:
        STATS["acquires"] += 1
        if self._real.acquire(False):
            self._owner = getattr(CURRENT, "name", None)
            self._depth += 1
            return True
        if not blocking:
            return False
        sched = getattr(CURRENT, "sched", None)
        if sched is None:
            ok = self._real.acquire(True, timeout)
            if ok:
                self._depth += 1
            return ok
        spins = 0
        while True:
            STATS["blocked_yields"] += 1
            sched.block_yield(self._owner, spins)
            spins += 1
            if self._real.acquire(False):
                self._owner = getattr(CURRENT, "name", None)
                self._depth += 1
                return True

    def release(self) -> None:
        self._depth -= 1
        if self._depth <= 0:
            self._depth = 0
            self._owner = None
        self._real.release()

    def locked(self) -> bool:
        return self._real.locked() if hasattr(self._real, "locked") else self._depth > 0

    def __enter__(self) -> bool:
        return self.acquire()

    def __exit__(self, *exc: Any) -> None:
        self.release()

    def __getattr__(self, name: str) -> Any:  # _release_save / _acquire_restore / _is_owned of RLock, _at_fork_reinit
        return getattr(self._real, name)


def _factory(real_factory: Any) -> Any:
    def make(*args: Any, **kwargs: Any) -> Any:
        fn = sys._getframe(1).f_code.co_filename
        if fn.startswith(_FOREIGN) or (os.sep + "site-packages" + os.sep) in fn or fn.startswith("<frozen"):
            return real_factory(*args, **kwargs)
        STATS["created"] += 1
        return SimLock(real_factory(*args, **kwargs))

    return make


_installed = False


def install() -> None:
    global _installed
    if _installed:
        return
    _installed = True
    threading.Lock = _factory(REAL_LOCK)  # type: ignore[misc]
    threading.RLock = _factory(REAL_RLOCK)  # type: ignore[misc]
