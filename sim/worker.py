"""Worker interpreter: executes a range of scenarios (or one replay / minimisation) under one hash seed.

Started by main.py as `/venv/bin/python worker.py <json-args>` with PYTHONHASHSEED set;
never with -I/-E (those make CPython ignore the variable).
"""

from __future__ import annotations

import faulthandler
import json
import logging
import os
import sys
import time
import warnings

HERE = os.path.dirname(os.path.abspath(__file__))
if HERE not in sys.path:
    sys.path.insert(0, HERE)

import simlock  # noqa: E402

simlock.install()  # before anything imports y0

warnings.filterwarnings("ignore")
logging.disable(logging.CRITICAL)


def _merge(dst: dict, src: dict) -> None:
    for k, v in src.items():
        if isinstance(v, dict):
            _merge(dst.setdefault(k, {}), v)
        elif isinstance(v, bool):
            dst[k] = dst.get(k, 0) + int(v)
        elif isinstance(v, (int, float)):
            dst[k] = dst.get(k, 0) + v
        elif isinstance(v, list):
            dst.setdefault(k, [])


def run_graph_range(args: dict, out) -> None:
    import gen
    from graphsim import explicit_case, run_case

    prop, seed, tier, wid = args["prop"], args["seed"], args["tier"], args["wid"]
    agg: dict = {}
    inter: set = set()
    nontrivial = 0
    samples = []
    t0 = time.time()
    done = 0
    from order import scenario_order

    for s in scenario_order(args["lo"], args["hi"], seed, wid):
        if time.time() - t0 > args.get("wall", 1e9):
            break
        case = gen.GENERATORS[prop](seed, s, wid, tier)
        case["hashseed"] = args["hashseed"]
        cr = run_case(case)
        done += 1
        _merge(agg, {k: v for k, v in cr.stats.items() if k not in ("interleavings", "nontrivial")})
        inter.update(cr.stats["interleavings"])
        nontrivial += int(cr.stats["nontrivial"])
        line = {"t": "scen", "s": s, "w": wid, "hs": args["hashseed"], "xd": cr.result_digests, "nt": cr.stats["nontrivial"],
                "ed": _eventdigest(cr)}
        if cr.violations:
            line["viol"] = cr.violations[:20]
            line["case"] = explicit_case(case)
        if len(samples) < 1 and cr.stats["nontrivial"]:
            samples.append(_sample(case, cr))
        out.write(json.dumps(line) + "\n")
    out.write(json.dumps({"t": "stats", "w": wid, "hashseed": args["hashseed"], "done": done, "agg": agg,
                          "interleavings": sorted(inter), "nontrivial": nontrivial, "samples": samples,
                          "wall": time.time() - t0}) + "\n")


def _eventdigest(cr) -> str:
    from ser import digest

    return digest([cr.eventlog, cr.result_digests, [v["sig"] for v in cr.violations]])


def _sample(case: dict, cr) -> dict:
    return {
        "scenario": case["scenario"],
        "worker": case["worker"],
        "hashseed": case.get("hashseed"),
        "graphs": [{k: g[k] for k in ("nodes", "D", "B", "acyclic")} for g in case["graphs"]],
        "histories": case["histories"],
        "queries": case.get("queries"),
        "rounds": case["rounds"],
        "populations": [
            {"name": p["name"], "policy": p.get("policy"), "p": p.get("p"),
             "schedule": p.get("_rec_schedule"), "aborts": p.get("_rec_aborts")}
            for p in case["pops"]
        ],
    }


def run_prefix(prefix: dict | None) -> None:
    """Re-execute the scenarios that ran earlier in the same interpreter (for history-dependent violations)."""
    if not prefix or not prefix.get("ids"):
        return
    if prefix["prop"] in ("C14", "C02", "C04"):
        import gen
        from graphsim import run_case

        for s in prefix["ids"]:
            run_case(gen.GENERATORS[prefix["prop"]](prefix["seed"], s, prefix["wid"], prefix["tier"]))
    else:
        import c11sim

        for s in prefix["ids"]:
            c11sim.run_any(c11sim.make_case(prefix["seed"], s, prefix["wid"]))


def serve() -> None:
    """Evaluate cases sent as JSON lines on stdin (used for pair minimisation)."""
    import c11sim

    for ln in sys.stdin:
        ln = ln.strip()
        if not ln:
            continue
        try:
            case = json.loads(ln)
            if case.get("prop") in ("C14", "C02", "C04"):
                from graphsim import run_case

                cr = run_case(case, explicit=True)
                res = {"xv": cr.result_values, "xd": cr.result_digests, "viol": [v["sig"] for v in cr.violations]}
            else:
                res = c11sim.replay(case)
        except Exception as e:  # noqa: BLE001
            res = {"error": f"{type(e).__name__}: {e}"}
        sys.stdout.write(json.dumps(res) + "\n")
        sys.stdout.flush()


def main() -> None:
    args = json.loads(sys.argv[1])
    faulthandler.enable()
    faulthandler.dump_traceback_later(args.get("hard_timeout", 3600), exit=True)
    want = args.get("hashseed")
    if want is not None and os.environ.get("PYTHONHASHSEED") != str(want):
        print(f"HARNESS-ERROR: worker started with PYTHONHASHSEED={os.environ.get('PYTHONHASHSEED')} wanted {want}")
        sys.exit(2)
    mode = args["mode"]
    if mode == "server":
        serve()
        return
    if mode == "builder":
        import base64
        import pickle

        import world

        for ln in sys.stdin:
            ln = ln.strip()
            if ln:
                req = json.loads(ln)
                if "recipe" in req:
                    import c11sim

                    obj = c11sim.build(req["recipe"])
                else:
                    obj = world.build_graph(req)
                sys.stdout.write(base64.b64encode(pickle.dumps(obj)).decode() + "\n")
                sys.stdout.flush()
        return
    with open(args["out"], "w") as out:
        if mode == "regen":
            if args["prop"] in ("C14", "C02", "C04"):
                import gen
                from graphsim import explicit_case, run_case

                case = gen.GENERATORS[args["prop"]](args["seed"], args["s"], args["wid"], args["tier"])
                case["hashseed"] = args["hashseed"]
                cr = run_case(case)
                out.write(json.dumps({"t": "regen", "case": explicit_case(case), "xv": cr.result_values,
                                      "xd": cr.result_digests}) + "\n")
            else:
                import c11sim

                case = c11sim.make_case(args["seed"], args["s"], args["wid"])
                case["hashseed"] = args["hashseed"]
                res = c11sim.run_any(case)
                if case.get("kind") == "inter":
                    case = c11sim.explicit_inter(case)
                out.write(json.dumps({"t": "regen", "case": case, "xv": res["xv"], "xd": res["xd"]}) + "\n")
        elif mode == "run":
            if args["prop"] in ("C14", "C02", "C04"):
                run_graph_range(args, out)
            else:
                import c11sim

                c11sim.run_range(args, out)
        elif mode == "replay":
            doc = json.load(open(args["file"]))
            case = doc["case"]
            run_prefix(doc.get("prefix"))
            if case["prop"] in ("C14", "C02", "C04"):
                from graphsim import run_case

                cr = run_case(case, explicit=True)
                out.write(json.dumps({"t": "replay", "viol": cr.violations, "xd": cr.result_digests,
                                      "xv": cr.result_values, "ed": _eventdigest(cr)}) + "\n")
            else:
                import c11sim

                out.write(json.dumps(c11sim.replay(case)) + "\n")
        elif mode == "minimise":
            doc = json.load(open(args["file"]))
            case = doc["case"]
            if case["prop"] in ("C14", "C02", "C04"):
                from minimise import minimise

                small, info = minimise(case, args["sig"], args.get("max_runs", 400))
            else:
                import c11sim

                small, info = c11sim.minimise(case, args["sig"], args.get("max_runs", 400))
            out.write(json.dumps({"t": "min", "case": small, "info": info}) + "\n")
        else:
            raise SystemExit(f"unknown mode {mode}")


if __name__ == "__main__":
    main()
