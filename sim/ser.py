"""Hash-seed independent serialisers and fingerprints.

Nothing in this module iterates a set of y0 objects without sorting it by a key
that is built from strings only, so every value produced here is the same in
every interpreter regardless of PYTHONHASHSEED (that is what lets the parent
compare digests that come from workers with different hash seeds).
"""

from __future__ import annotations

import hashlib
import json
from typing import Any

import networkx as nx

from y0.dsl import (
    CounterfactualVariable,
    Distribution,
    Expression,
    Fraction,
    Intervention,
    One,
    PopulationProbability,
    Probability,
    Product,
    QFactor,
    Sum,
    Variable,
    Zero,
)
from y0.graph import NxMixedGraph

_STAR = {None: "", True: "+", False: "-"}


def ser_var(v: Any) -> str:
    """Serialise a variable to a string, independent of set iteration order."""
    if isinstance(v, str):
        return "s:" + v
    if isinstance(v, CounterfactualVariable):
        ins = sorted(_STAR[i.star] + i.name for i in v.interventions)
        return f"{_STAR[v.star]}{v.name}@({','.join(ins)})"
    if isinstance(v, Intervention):
        return f"i:{_STAR[v.star]}{v.name}"
    if isinstance(v, Variable):
        return f"{_STAR[v.star]}{v.name}"
    return f"?{type(v).__name__}:{v!r}"


def ser_vars_sorted(vs: Any) -> list[str]:
    return sorted(ser_var(v) for v in vs)


def ser_vars_ordered(vs: Any) -> list[str]:
    return [ser_var(v) for v in vs]


def ser_expr(e: Any) -> Any:
    """Structural serialisation of an expression: tuples keep their order, frozensets are sorted."""
    if isinstance(e, PopulationProbability):
        return [
            "PP",
            ser_var(e.population),
            ser_vars_ordered(e.distribution.children),
            ser_vars_ordered(e.distribution.parents),
        ]
    if isinstance(e, Probability):
        return [
            "P",
            ser_vars_ordered(e.distribution.children),
            ser_vars_ordered(e.distribution.parents),
        ]
    if isinstance(e, Product):
        return ["*", [ser_expr(x) for x in e.expressions]]
    if isinstance(e, Sum):
        return ["S", ser_vars_sorted(e.ranges), ser_expr(e.expression)]
    if isinstance(e, Fraction):
        return ["/", ser_expr(e.numerator), ser_expr(e.denominator)]
    if isinstance(e, One):
        return ["1"]
    if isinstance(e, Zero):
        return ["0"]
    if isinstance(e, QFactor):
        return ["Q", ser_vars_sorted(e.domain), ser_vars_sorted(e.codomain)]
    if isinstance(e, Distribution):
        return ["D", ser_vars_ordered(e.children), ser_vars_ordered(e.parents)]
    if isinstance(e, Expression):
        return ["?", type(e).__name__]
    return ["??", type(e).__name__, repr(e)]


def digest(obj: Any) -> str:
    """Short stable digest of a JSON-able object."""
    return hashlib.sha256(
        json.dumps(obj, sort_keys=True, separators=(",", ":")).encode()
    ).hexdigest()[:16]


# --------------------------------------------------------------------------- graphs


def _ser_data(d: Any) -> str:
    if not d:
        return ""
    return json.dumps({str(k): repr(v) for k, v in d.items()}, sort_keys=True)


def graph_canonical(g: NxMixedGraph) -> dict[str, Any]:
    """Order-free view of a mixed graph through public accessors only."""
    return {
        "N": sorted(ser_var(n) for n in g.nodes()),
        "Nd": sorted(ser_var(n) for n in g.directed.nodes()),
        "Nu": sorted(ser_var(n) for n in g.undirected.nodes()),
        "D": sorted([ser_var(u), ser_var(v)] for u, v in g.directed.edges()),
        "B": sorted(sorted([ser_var(u), ser_var(v)]) for u, v in g.undirected.edges()),
    }


def nxgraph_canonical(g: nx.Graph) -> dict[str, Any]:
    return {
        "N": sorted(ser_var(n) for n in g.nodes()),
        "E": sorted(sorted([ser_var(u), ser_var(v)]) for u, v in g.edges()),
        "directed": bool(g.is_directed()),
    }


def graph_fingerprint(g: NxMixedGraph) -> tuple[Any, ...]:
    """Everything observable about a graph, *including* insertion order and object identity.

    Used by the "receiver never modified" invariant: re-inserting an edge, swapping
    the nx objects, touching an attribute dict — all change the fingerprint.
    Private attributes of the NxMixedGraph object itself are deliberately NOT part of
    it: a correctly invalidated memo attribute is not a modification of the graph.
    Only compared inside one process, so id() is allowed here (never logged).
    """
    d, u = g.directed, g.undirected
    return (
        id(d),
        id(u),
        type(d).__name__,
        type(u).__name__,
        tuple((ser_var(n), _ser_data(dd)) for n, dd in d.nodes(data=True)),
        tuple((ser_var(n), _ser_data(dd)) for n, dd in u.nodes(data=True)),
        tuple(
            (ser_var(n), tuple((ser_var(m), _ser_data(dd)) for m, dd in nbrs.items()))
            for n, nbrs in d.adjacency()
        ),
        tuple((ser_var(n), tuple(ser_var(m) for m in d.pred[n])) for n in d.nodes()),
        tuple(
            (ser_var(n), tuple((ser_var(m), _ser_data(dd)) for m, dd in nbrs.items()))
            for n, nbrs in u.adjacency()
        ),
        _ser_data(d.graph),
        _ser_data(u.graph),
    )


def fingerprint_public(fp: tuple[Any, ...]) -> Any:
    """Drop the id() entries so a fingerprint can be written to a replay file."""
    return json.loads(json.dumps(fp[2:]))


def _is_canonical(j: Any) -> Any:
    try:
        return bool(j.is_canonical)
    except Exception as e:  # noqa: BLE001 - e.g. Variable ordering between a variable and its value-marked namesake
        return f"raised:{type(e).__name__}"


def ser_result(kind: str, value: Any) -> Any:
    """Canonical (order-free where the value is a set) serialisation of an operation result."""
    if kind == "graph":
        return graph_canonical(value)
    if kind == "nxgraph":
        return nxgraph_canonical(value)
    if kind == "set":
        return ser_vars_sorted(value)
    if kind == "setofsets":
        return sorted(ser_vars_sorted(x) for x in value)
    if kind == "list":
        return ser_vars_ordered(value)
    if kind == "dsep":
        return [
            {
                "sep": bool(j.separated),
                "truth": bool(j),
                "left": ser_var(j.left),
                "right": ser_var(j.right),
                "cond": [ser_var(c) for c in j.conditions],
                "cond_type": type(j.conditions).__name__,
                "canonical": _is_canonical(j),
            }
            for j in value
        ]
    if kind == "bool":
        return bool(value)
    if kind == "expr":
        return ser_expr(value)
    raise ValueError(kind)
