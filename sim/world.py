"""Abstract worlds (graphs as name lists), construction histories (seam H) and their realisation.

Generators use lists and `random.Random` seeded with strings only, never sets, so the
same seed yields the same world in every interpreter whatever its hash seed.
"""

from __future__ import annotations

import random
import re
from typing import Any

from y0.dsl import CounterfactualVariable, Intervention, Variable
from y0.graph import NxMixedGraph

from models import MG

_LET = "ABCDEFGHIJKLMNORSTUVWXYZ"  # no P, Q (reserved names in y0)
_TAIL = "abcdefghijklmnopqrstuvwxyz0123456789"
_BAD = {"P", "Q", "PP"}


COMMON_NAMES = ["A", "B", "C", "X", "Y", "Z", "W", "M"]
# names a user may well give to a node and that collide with conventions inside the library (latent-variable
# prefix "u_", the "hidden" tag, ...) or differ only in case
AWKWARD_NAMES = ["u_0", "u_1", "u_2", "u_3", "U_0", "hidden", "L0", "X_1", "x", "y0", "E1", "pi1"]


def gen_names(rng: random.Random, n: int, common: bool = False) -> list[str]:
    """Fresh variable names per scenario so each (scenario, hash seed) is a new draw of set orders.

    With common=True the names come from a small fixed pool instead, so that different scenarios
    executed in one interpreter talk about the *same* variables (a cache in the code under test
    that is keyed too coarsely can then carry an answer from one scenario into another).
    """
    if common:
        pool = list(COMMON_NAMES)
        rng.shuffle(pool)
        return pool[:n] if n <= len(pool) else pool + gen_names(rng, n - len(pool))
    out: list[str] = []
    while len(out) < n:
        if rng.random() < 0.06:
            nm = rng.choice(AWKWARD_NAMES)
        else:
            k = rng.choice((1, 1, 2, 2, 3))
            nm = rng.choice(_LET) + "".join(rng.choice(_TAIL) for _ in range(k - 1))
        if nm not in _BAD and nm not in out:
            out.append(nm)
    return out


def gen_chain_graph(rng: random.Random, n: int, shortcuts: bool = True) -> dict[str, Any]:
    """A long directed chain K0 -> K1 -> ... -> K(n-1) -> X -> Y with a few extra edges (a time-unrolled model):
    recursion depth, not width, is what such a graph stresses.  With shortcuts=False the only extra is X <-> Y:
    a shortcut from the middle of the chain to Y makes y0's ID split the chain into one sub-problem per node
    (line 4), which is quadratic -- slow, not wrong, and not something to put a liveness budget on."""
    names = [f"K{i}" for i in range(n)] + ["X", "Y", "Zz"]
    D = [[names[i], names[i + 1]] for i in range(n + 1)]
    B: list[list[str]] = []
    if rng.random() < 0.5:
        B.append(["X", "Y"])
    if shortcuts:
        if rng.random() < 0.5:
            B.append([f"K{rng.randrange(n)}", "Y"])
        if rng.random() < 0.3:
            D.append([f"K{rng.randrange(n // 2)}", "Y"])
    return {"nodes": names, "D": D, "B": B, "acyclic": True, "order": list(names[:-1]) + ["Zz"], "deep": True}


def gen_graph(
    rng: random.Random,
    n_lo: int = 1,
    n_hi: int = 7,
    acyclic: bool = True,
    names: list[str] | None = None,
    pb_choices: tuple = (0.1, 0.3),
    pd_choices: tuple = (0.15, 0.3, 0.5),
    p_iso: float = 0.15,
) -> dict[str, Any]:
    """Draw an abstract mixed graph."""
    n = rng.randint(n_lo, n_hi)
    names = list(names) if names is not None else gen_names(rng, n, common=rng.random() < 0.2)
    names = names[:n] if len(names) >= n else names + gen_names(rng, n - len(names))
    if len(names) >= 2 and rng.random() < 0.08:
        # a variable next to its value-marked namesake as two distinct nodes (Variable("A") and Variable("A", star=True)):
        # legal, unusual, and exactly what ordering / keying code tends to forget
        i, j = rng.sample(range(len(names)), 2)
        marked = rng.choice("+-") + names[j].lstrip("+-")
        if marked not in names:
            names[i] = marked
    pd = rng.choice(pd_choices)
    pb = rng.choice(pb_choices)
    order = list(names)
    rng.shuffle(order)
    D: list[list[str]] = []
    B: list[list[str]] = []
    # deliberately isolated nodes: they take part in no edge at all
    iso = [x for x in names if rng.random() < p_iso]
    # nodes touched only by bidirected edges
    bionly = [x for x in names if x not in iso and rng.random() < p_iso]
    for i, u in enumerate(order):
        for j, v in enumerate(order):
            if i == j or u in iso or v in iso:
                continue
            if u not in bionly and v not in bionly:
                if acyclic:
                    if i < j and rng.random() < pd:
                        D.append([u, v])
                else:
                    if rng.random() < pd * 0.7:
                        D.append([u, v])
            if i < j and rng.random() < pb:
                B.append([u, v])
    return {"nodes": names, "D": D, "B": B, "acyclic": acyclic, "order": order if acyclic else None}


def world_model(g: dict[str, Any]) -> MG:
    return MG.make(g["nodes"], g["D"], g["B"])


# --------------------------------------------------------------------------- seam H


def _perm(rng: random.Random, xs: list) -> list:
    xs = list(xs)
    rng.shuffle(xs)
    return xs


def _with_dups(rng: random.Random, xs: list, p: float = 0.2) -> list:
    out = list(xs)
    for x in xs:
        if rng.random() < p:
            out.insert(rng.randrange(len(out) + 1), x)
    return out


CTORS = ("from_edges", "from_str_edges", "from_adj", "from_str_adj", "incremental")


def gen_history(rng: random.Random, g: dict[str, Any]) -> dict[str, Any]:
    """Draw one construction history that denotes the abstract graph g."""
    ctor = rng.choice(CTORS)
    nodes, D, B = g["nodes"], g["D"], g["B"]
    if any(x[:1] in "+-" for x in nodes) and ctor in ("from_str_edges", "from_str_adj"):
        ctor = rng.choice(("from_edges", "from_adj", "incremental"))  # plain strings cannot name a value-marked node
    covered = {x for e in D for x in e} | {x for e in B for x in e}
    needed = [x for x in nodes if x not in covered]
    h: dict[str, Any] = {"ctor": ctor, "copy": rng.random() < 0.2}
    if rng.random() < 0.05:
        h["via"] = "pickle"  # built in another interpreter (another hash seed) and shipped through pickle
    if ctor == "incremental":
        steps: list[list] = [["d", u, v] for u, v in D]
        steps += [["b", *(_perm(rng, [u, v]))] for u, v in B]
        extra = needed + [x for x in nodes if x in covered and rng.random() < 0.4]
        steps += [["n", x] for x in extra]
        steps = _with_dups(rng, _perm(rng, steps))
        # a duplicated bidirected edge may come back with the other orientation
        steps = [
            ["b", s[2], s[1]] if s[0] == "b" and rng.random() < 0.3 else s for s in steps
        ]
        h["steps"] = steps
        return h
    if rng.random() < 0.5:
        hn = _perm(rng, nodes)
    else:
        hn = _perm(rng, needed + [x for x in nodes if x in covered and rng.random() < 0.3])
    h["nodes"] = _with_dups(rng, hn, 0.1)
    if ctor in ("from_edges", "from_str_edges"):
        h["directed"] = _with_dups(rng, _perm(rng, [list(e) for e in D]))
        ub = [_perm(rng, e) for e in _with_dups(rng, _perm(rng, [list(e) for e in B]))]
        h["undirected"] = ub
    else:
        # adjacency: list of [u, [v...]] pairs in key order (JSON keeps list order)
        dadj: dict[str, list] = {}
        for u, v in _perm(rng, [list(e) for e in D]):
            dadj.setdefault(u, []).append(v)
        for x in nodes:
            if x not in dadj and rng.random() < 0.2:
                dadj[x] = []
        uadj: dict[str, list] = {}
        for e in _perm(rng, [list(e) for e in B]):
            u, v = _perm(rng, e)
            uadj.setdefault(u, []).append(v)
            if rng.random() < 0.4:
                uadj.setdefault(v, []).append(u)
        dk = _perm(rng, list(dadj))
        uk = _perm(rng, list(uadj))
        h["directed"] = [[k, dadj[k]] for k in dk]
        h["undirected"] = [[k, uadj[k]] for k in uk]
    return h


def history_dups(h: dict[str, Any]) -> int:
    """Number of repeated insertions in a history (each is one 'dup' fault)."""
    if h["ctor"] == "incremental":
        items = [tuple(s) if s[0] != "b" else ("b", *sorted(s[1:])) for s in h["steps"]]
    elif h["ctor"] in ("from_edges", "from_str_edges"):
        items = [("n", x) for x in h["nodes"]] + [("d", *e) for e in h["directed"]] + [
            ("b", *sorted(e)) for e in h["undirected"]]
    else:
        items = [("n", x) for x in h["nodes"]] + [("d", k, v) for k, vs in h["directed"] for v in vs] + [
            ("b", *sorted((k, v))) for k, vs in h["undirected"] for v in vs]
    return len(items) - len(set(items))


def canonical_history(g: dict[str, Any]) -> dict[str, Any]:
    """The plainest history (used by minimisation: 'does it still fail with the boring construction?')."""
    return {
        "ctor": "from_edges",
        "copy": False,
        "nodes": list(g["nodes"]),
        "directed": [list(e) for e in g["D"]],
        "undirected": [list(e) for e in g["B"]],
    }


def V(name: str) -> Variable:
    return mkvar(name)  # "+A" / "-A" denote the value-marked variable, "A@(...)" a counterfactual one


def apply_steps(graph: NxMixedGraph, steps: list[list]) -> None:
    for s in steps:
        if s[0] == "n":
            graph.add_node(V(s[1]))
        elif s[0] == "d":
            graph.add_directed_edge(V(s[1]), V(s[2]))
        elif s[0] == "b":
            graph.add_undirected_edge(V(s[1]), V(s[2]))
        else:
            raise ValueError(s)


_BUILDER: Any = None


def _remote_build(h: dict[str, Any]) -> Any:
    """Build the graph (or, for {"recipe": ...}, the expression) in another interpreter (other PYTHONHASHSEED) and
    receive it through pickle -- what an object handed to a multiprocessing worker or loaded from disk has been through."""
    global _BUILDER
    import base64
    import json
    import os
    import pickle
    import subprocess
    import sys

    if _BUILDER is None or _BUILDER.poll() is not None:
        here = os.path.dirname(os.path.abspath(__file__))
        env = dict(os.environ)
        mine = int(env.get("PYTHONHASHSEED") or 0) if (env.get("PYTHONHASHSEED") or "0").isdigit() else 0
        env["PYTHONHASHSEED"] = str((mine * 7 + 13) % (2**32 - 1) + 1)
        _BUILDER = subprocess.Popen(
            [sys.executable, os.path.join(here, "worker.py"), json.dumps({"mode": "builder", "out": os.devnull, "hard_timeout": 14400})],
            env=env, stdin=subprocess.PIPE, stdout=subprocess.PIPE, stderr=subprocess.DEVNULL, text=True)
    _BUILDER.stdin.write(json.dumps({k: v for k, v in h.items() if k != "via"}) + "\n")
    _BUILDER.stdin.flush()
    line = _BUILDER.stdout.readline()
    if not line:
        raise RuntimeError("builder interpreter died")
    return pickle.loads(base64.b64decode(line.strip()))


def build_graph(h: dict[str, Any]) -> NxMixedGraph:
    """Realise a history through y0's public constructors."""
    if h.get("via") == "pickle":
        return _remote_build(h)
    ctor = h["ctor"]
    if ctor == "incremental":
        g = NxMixedGraph()
        apply_steps(g, h["steps"])
    elif ctor == "from_edges":
        g = NxMixedGraph.from_edges(
            nodes=[V(x) for x in h["nodes"]],
            directed=[(V(u), V(v)) for u, v in h["directed"]],
            undirected=[(V(u), V(v)) for u, v in h["undirected"]],
        )
    elif ctor == "from_str_edges":
        g = NxMixedGraph.from_str_edges(
            nodes=list(h["nodes"]),
            directed=[(u, v) for u, v in h["directed"]],
            undirected=[(u, v) for u, v in h["undirected"]],
        )
    elif ctor == "from_adj":
        g = NxMixedGraph.from_adj(
            nodes=[V(x) for x in h["nodes"]],
            directed={V(k): [V(v) for v in vs] for k, vs in h["directed"]},
            undirected={V(k): [V(v) for v in vs] for k, vs in h["undirected"]},
        )
    elif ctor == "from_str_adj":
        g = NxMixedGraph.from_str_adj(
            nodes=list(h["nodes"]),
            directed={k: list(vs) for k, vs in h["directed"]},
            undirected={k: list(vs) for k, vs in h["undirected"]},
        )
    else:
        raise ValueError(ctor)
    if h.get("copy"):
        g = g.copy()
    return g


# --------------------------------------------------------------------------- variables from strings

_CF = re.compile(r"^([+-]?)([^@+\-]+)@\((.*)\)$")


def mkvar(s: str) -> Variable:
    """Inverse of ser.ser_var for graph nodes (plain or counterfactual variables)."""
    m = _CF.match(s)
    if not m:
        if s[:1] in "+-":
            return Variable(s[1:], star=(s[0] == "+"))
        return Variable(s)
    sign, name, ins = m.groups()
    star = None if not sign else (sign == "+")
    interventions = frozenset(Intervention(name=i[1:], star=(i[0] == "+")) for i in ins.split(","))
    return CounterfactualVariable(name=name, star=star, interventions=interventions)


def graph_from_model(m: MG) -> NxMixedGraph:
    """Build a y0 graph that denotes the model (sorted, boring construction)."""
    return NxMixedGraph.from_edges(
        nodes=[mkvar(n) for n in sorted(m.N)],
        directed=[(mkvar(u), mkvar(v)) for u, v in sorted(m.D)],
        undirected=[tuple(mkvar(x) for x in sorted(e)) for e in sorted(m.B, key=sorted)],
    )
