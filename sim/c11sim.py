"""C11: canonical form is a normal form, independent of hash seed and construction order.

Cases are *construction recipes* (JSON trees of constructor calls on names), rebuilt in
every worker from lists, so that the same abstract case is executed under several
PYTHONHASHSEED values.  In-run oracles: O1 idempotence, O2 presentation invariance.
Cross-worker oracles (evaluated by the parent): O3 object digest, O4 str(), O5 verdicts
of canonical_expr_equal.
"""

from __future__ import annotations

import copy
import json
import random
import time
from typing import Any

from y0.dsl import (
    CounterfactualVariable,
    Distribution,
    Expression,
    Fraction,
    Intervention,
    One,
    PopulationProbability,
    Probability,
    Product,
    Sum,
    Variable,
    Zero,
)
from y0.mutate.canonicalize_expr import canonical_expr_equal, canonicalize

import world
from ser import digest, ser_expr, ser_var

# =========================================================================== recipes -> objects


def mk_var(v: list) -> Variable:
    name, star, ints = v
    if ints:
        return CounterfactualVariable(
            name=name, star=star, interventions=frozenset(Intervention(name=n, star=bool(s)) for n, s in ints)
        )
    return Variable(name, star=star)


def build(r: list) -> Expression:
    t = r[0]
    if t == "P":
        return Probability(Distribution(children=tuple(mk_var(v) for v in r[1]), parents=tuple(mk_var(v) for v in r[2])))
    if t == "PP":
        return PopulationProbability(
            population=Variable(r[1]),
            distribution=Distribution(children=tuple(mk_var(v) for v in r[2]), parents=tuple(mk_var(v) for v in r[3])),
        )
    if t == "*":
        return Product(expressions=tuple(build(x) for x in r[1]))
    if t == "S":
        return Sum(expression=build(r[2]), ranges=frozenset(Variable(n) for n in r[1]))
    if t == "/":
        return Fraction(build(r[1]), build(r[2]))
    if t == "1":
        return One()
    if t == "0":
        return Zero()
    raise ValueError(t)


def recipe_names(r: list, acc: set | None = None) -> set:
    acc = set() if acc is None else acc
    t = r[0]
    if t in ("P", "PP"):
        for v in (r[1] + r[2]) if t == "P" else (r[2] + r[3]):
            acc.add(v[0])
            for n, _ in v[2]:
                acc.add(n)
    elif t == "*":
        for x in r[1]:
            recipe_names(x, acc)
    elif t == "S":
        acc.update(r[1])
        recipe_names(r[2], acc)
    elif t == "/":
        recipe_names(r[1], acc)
        recipe_names(r[2], acc)
    return acc


# =========================================================================== generation


def _gen_ints(rng: random.Random, names: list[str], lo: int = 1, hi: int = 3) -> list:
    k = min(len(names), rng.randint(lo, hi))
    return [[n, rng.random() < 0.3] for n in rng.sample(names, k)]


def _gen_dist(rng: random.Random, names: list[str], flags: dict) -> tuple[list, list]:
    pool = list(names)
    rng.shuffle(pool)
    nc = min(len(pool), rng.choice((1, 1, 1, 2, 2, 3, 4)))
    ch = pool[:nc]
    rest = pool[nc:]
    npar = min(len(rest), rng.choice((0, 0, 0, 1, 1, 2, 3)))
    pa = rest[:npar]
    star = lambda: rng.choice((None, None, None, None, None, True, False))  # noqa: E731
    mode = rng.random()
    if mode < 0.3:
        # level-2 form: one intervention set on every variable -> printed as P[...](...)
        free = [n for n in names if n not in ch and n not in pa] or names
        ints = _gen_ints(rng, free, 1, 3)
        children = [[n, star(), ints] for n in ch]
        parents = [[n, star(), ints] for n in pa]
    elif mode < 0.45:
        children = [[n, star(), _gen_ints(rng, names, 1, 2) if rng.random() < 0.5 else []] for n in ch]
        parents = [[n, star(), _gen_ints(rng, names, 1, 2) if rng.random() < 0.5 else []] for n in pa]
    else:
        children = [[n, star(), []] for n in ch]
        parents = [[n, star(), []] for n in pa]
    if flags.get("same_name_cf") and rng.random() < 0.5:
        # two counterfactual copies of one base variable on the same side of the bar
        side = parents if (parents and rng.random() < 0.5) else children
        base = side[rng.randrange(len(side))]
        others = [n for n in names if n != base[0]] or names
        a, b = rng.choice(others), rng.choice(others)
        variant = rng.random()
        if variant < 0.5:
            # different interventions, same value mark
            v1 = [base[0], base[1], [[a, False]]]
            v2 = [base[0], base[1], [[b, True]]] if b != a else [base[0], base[1], [[a, True]]]
        elif variant < 0.8:
            # the same interventions, different value marks: only the mark tells the copies apart
            marks = rng.sample((None, True, False), 2)
            v1 = [base[0], marks[0], [[a, False]]]
            v2 = [base[0], marks[1], [[a, False]]]
        else:
            # no interventions at all: a variable next to its value-marked self
            marks = rng.sample((None, True, False), 2)
            v1 = [base[0], marks[0], []]
            v2 = [base[0], marks[1], []]
        side[side.index(base)] = v1
        side.insert(rng.randrange(len(side) + 1), v2)
    return children, parents


def _gen_atom(rng: random.Random, names: list[str], flags: dict, first: str | None = None) -> list:
    ch, pa = _gen_dist(rng, names, flags)
    if first is not None and all(v[0] != first for v in ch + pa):
        ch[0] = [first, ch[0][1], ch[0][2]]
    if rng.random() < flags.get("p_pp", 0.15):
        return ["PP", rng.choice(flags["pops"]), ch, pa]
    return ["P", ch, pa]


def _near_dup(rng: random.Random, atom: list, flags: dict) -> list:
    """A probability that differs from `atom` in exactly one small aspect (stress for sort keys and memo keys)."""
    a = copy.deepcopy(atom)
    ci, pi = (1, 2) if a[0] == "P" else (2, 3)
    for _ in range(6):
        k = rng.choice(("star", "istar", "pop", "move", "drop", "ivar"))
        if k == "star":
            side = a[rng.choice((ci, pi))]
            if side:
                v = side[rng.randrange(len(side))]
                v[1] = rng.choice([x for x in (None, True, False) if x != v[1]])
                return a
        elif k == "istar":
            cands = [v for v in a[ci] + a[pi] if v[2]]
            if cands:
                v = rng.choice(cands)
                v[2] = copy.deepcopy(v[2])
                i = rng.randrange(len(v[2]))
                v[2][i][1] = not v[2][i][1]
                return a
        elif k == "pop":
            if a[0] == "P":
                return ["PP", rng.choice(flags["pops"]), a[1], a[2]]
            others = [x for x in flags["pops"] if x != a[1]]
            if others and rng.random() < 0.5:
                return ["PP", rng.choice(others), a[2], a[3]]
            return ["P", a[2], a[3]]
        elif k == "move":
            if a[pi]:
                v = a[pi].pop(rng.randrange(len(a[pi])))
                a[ci].append(v)
                return a
        elif k == "drop":
            if a[pi]:
                a[pi].pop(rng.randrange(len(a[pi])))
                return a
        elif k == "ivar":
            cands = [v for v in a[ci] + a[pi] if len(v[2]) >= 2]
            if cands:
                v = rng.choice(cands)
                v[2] = copy.deepcopy(v[2])
                v[2].pop(rng.randrange(len(v[2])))
                return a
    return a


def gen_expr(rng: random.Random, names: list[str], depth: int, flags: dict, allow_zero: bool = True) -> list:
    if depth <= 0 or rng.random() < 0.3:
        x = rng.random()
        if x < 0.04:
            return ["1"]
        if x < 0.06 and allow_zero:
            return ["0"]
        return _gen_atom(rng, names, flags)
    x = rng.random()
    if x < 0.4:
        k = rng.randint(2, 4)
        if flags.get("tie_first_child") and rng.random() < 0.6:
            first = rng.choice(names)
            fs = [_gen_atom(rng, names, flags, first=first) for _ in range(k)]
        else:
            fs = [gen_expr(rng, names, depth - 1, flags, allow_zero) for _ in range(k)]
        if flags.get("near_dup"):
            atoms = [f for f in fs if f[0] in ("P", "PP")]
            if atoms and rng.random() < 0.7:
                fs.insert(rng.randrange(len(fs) + 1), _near_dup(rng, rng.choice(atoms), flags))
        return ["*", fs]
    if x < 0.65:
        inner = gen_expr(rng, names, depth - 1, flags, allow_zero)
        if inner[0] in ("P", "PP") and rng.random() < 0.7:
            chn = [v[0] for v in (inner[1] if inner[0] == "P" else inner[2])]
            mode = rng.choice(("cover", "exceed", "subset", "partial", "miss"))
            others = [n for n in names if n not in chn]
            if mode == "cover" or (mode in ("exceed", "partial", "miss") and not others):
                rg = list(chn)
            elif mode == "exceed":
                rg = list(chn) + rng.sample(others, rng.randint(1, len(others)))
            elif mode == "subset":
                rg = rng.sample(chn, rng.randint(1, len(chn)))
            elif mode == "partial":
                rg = rng.sample(chn, rng.randint(1, len(chn))) + rng.sample(others, rng.randint(1, len(others)))
            else:
                rg = rng.sample(others, rng.randint(1, len(others)))
            rg = sorted(set(rg))
            rng.shuffle(rg)
        else:
            rg = rng.sample(names, min(len(names), rng.randint(1, 3)))
        return ["S", rg, inner]
    if flags.get("cross_cancel") and rng.random() < 0.5:
        # fractions whose parts cancel only *across* levels: nothing cancels before the nested fractions are
        # regrouped, and afterwards numerator and denominator coincide (wholly or in part)
        def small() -> list:
            if rng.random() < 0.6:
                return _gen_atom(rng, names, flags)
            return ["*", [_gen_atom(rng, names, flags) for _ in range(2)]]

        X, Y, Z = small(), small(), small()
        pr = lambda r: present(rng, r)  # noqa: E731
        pat = rng.randrange(6)
        if pat == 0:
            return ["/", ["/", ["*", [X, Y]], pr(Y)], pr(X)]
        if pat == 1:
            return ["/", X, ["/", ["*", [pr(X), Z]], pr(Z)]]
        if pat == 2:
            return ["/", ["/", ["*", [X, Y]], ["*", [pr(Y), Z]]], ["/", pr(X), pr(Z)]]
        if pat == 3:
            return ["/", ["*", [X, ["/", Y, Z]]], ["/", ["*", [pr(Y), pr(X)]], pr(Z)]]
        if pat == 4:
            return ["*", [["/", ["/", ["*", [X, Y]], pr(Y)], Z], pr(Z)]]
        return ["/", ["/", ["*", [X, Y, Z]], pr(Y)], ["*", [pr(Z), gen_expr(rng, names, 1, flags, False)]]]
    num = gen_expr(rng, names, depth - 1, flags, allow_zero)
    y = rng.random()
    if flags.get("near_dup") and num[0] in ("P", "PP") and y < 0.4:
        return ["/", num, _near_dup(rng, num, flags)]
    if y < 0.15:
        den = copy.deepcopy(num)
        if _has_zero(den):
            den = _gen_atom(rng, names, flags)
    elif y < 0.35:
        # denominator that canonicalises to One: sum over all children of a joint
        a = _gen_atom(rng, names, dict(flags, same_name_cf=False))
        a[-1] = []
        chn = sorted({v[0] for v in a[-2]})
        den = ["S", chn, a]
    elif y < 0.5:
        den = ["/", ["1"], gen_expr(rng, names, depth - 2, flags, False)]
    else:
        den = gen_expr(rng, names, depth - 1, flags, False)
    return ["/", num, den]


def _has_zero(r: list) -> bool:
    t = r[0]
    if t == "0":
        return True
    if t == "*":
        return any(_has_zero(x) for x in r[1])
    if t == "S":
        return _has_zero(r[2])
    if t == "/":
        return _has_zero(r[1]) or _has_zero(r[2])
    return False


def present(rng: random.Random, r: list) -> list:
    """A re-presentation: factor order, product nesting, variable order on each side of the bar, range order."""
    t = r[0]

    def pv(v: list) -> list:
        # the order in which the interventions of a counterfactual variable are supplied (construction order of
        # a frozenset: it decides the iteration order when two elements share a hash-table slot)
        ints = list(v[2])
        rng.shuffle(ints)
        return [v[0], v[1], ints]

    if t == "P":
        ch, pa = [pv(v) for v in r[1]], [pv(v) for v in r[2]]
        rng.shuffle(ch)
        rng.shuffle(pa)
        return ["P", ch, pa]
    if t == "PP":
        ch, pa = [pv(v) for v in r[2]], [pv(v) for v in r[3]]
        rng.shuffle(ch)
        rng.shuffle(pa)
        return ["PP", r[1], ch, pa]
    if t == "*":
        flat = _flatten(r)
        fs = [present(rng, x) for x in flat]
        rng.shuffle(fs)
        return _nest(rng, fs)
    if t == "S":
        rg = list(r[1])
        rng.shuffle(rg)
        return ["S", rg, present(rng, r[2])]
    if t == "/":
        return ["/", present(rng, r[1]), present(rng, r[2])]
    return list(r)


def _flatten(r: list) -> list:
    out = []
    for x in r[1]:
        if x[0] == "*":
            out += _flatten(x)
        else:
            out.append(x)
    return out


def _nest(rng: random.Random, fs: list) -> list:
    """Random bracketing of a factor list into raw Product constructors (each with >= 2 members)."""
    if len(fs) <= 2 or rng.random() < 0.4:
        return ["*", fs]
    i = rng.randint(0, len(fs) - 2)
    j = rng.randint(i + 2, len(fs))
    if i == 0 and j == len(fs):
        return ["*", fs]
    inner = _nest(rng, fs[i:j])
    return _nest(rng, fs[:i] + [inner] + fs[j:]) if len(fs[:i] + [inner] + fs[j:]) > 2 else ["*", fs[:i] + [inner] + fs[j:]]


def _atoms(r: list, path: tuple = ()) -> list[tuple]:
    t = r[0]
    if t in ("P", "PP"):
        return [path]
    if t == "*":
        return [p for i, x in enumerate(r[1]) for p in _atoms(x, path + (1, i))]
    if t == "S":
        return _atoms(r[2], path + (2,))
    if t == "/":
        return _atoms(r[1], path + (1,)) + _atoms(r[2], path + (2,))
    return []


def _sibling(rng: random.Random, r: list, flags: dict) -> list | None:
    paths = _atoms(r)
    if not paths:
        return None
    path = rng.choice(paths)
    out = copy.deepcopy(r)
    node = out
    for step in path[:-1]:
        node = node[step]
    atom = node[path[-1]] if path else out
    for _ in range(8):
        new = _near_dup(rng, atom, flags)
        if new != atom:
            break
    if not path:
        return new
    node[path[-1]] = new
    return out


def gen_case(seed: int, s: int) -> dict:
    rng = random.Random(f"{seed}:C11:{s}")
    names = world.gen_names(rng, rng.randint(3, 6), common=rng.random() < 0.25)
    flags = {
        "tie_first_child": rng.random() < 0.3,
        "same_name_cf": rng.random() < 0.15,
        "near_dup": rng.random() < 0.3,
        "p_pp": rng.choice((0.0, 0.15, 0.5)),
        "pops": ["pi" + str(i) for i in range(1, rng.randint(1, 3) + 1)],
        "cross_cancel": rng.random() < 0.25,
    }
    depth = rng.choice((1, 2, 2, 3, 3, 4))
    r = gen_expr(rng, names, depth, flags)
    allnames = sorted(recipe_names(r))
    om = rng.choice(("none", "alpha", "perm", "perm-var"))
    if om == "none":
        ordering = None
    elif om == "alpha":
        ordering = list(allnames)
    else:
        ordering = list(allnames)
        rng.shuffle(ordering)
    pres = [present(rng, r) for _ in range(rng.randint(2, 5))]
    # a near-miss partner for the verdict oracle: same recipe with one name swapped for another
    other = None
    if len(allnames) >= 2 and rng.random() < 0.5:
        a, b = rng.sample(allnames, 2)
        other = json.loads(json.dumps(present(rng, r)).replace(json.dumps(a), json.dumps(b)))
    # siblings: whole-expression near-duplicates (one atom differs in a value mark, the mark of one
    # intervention, or the population tag); evaluated in the same interpreter, in a per-worker order
    siblings = []
    for _ in range(rng.choice((0, 1, 1, 2))):
        sib = _sibling(rng, r, flags)
        if sib is not None and sib != r:
            siblings.append(sib)
    via = "pickle" if rng.random() < 0.04 else None
    orng = random.Random(f"{seed}:C11o:{s}")  # separate stream: the rest of the case is as before
    extra = [n for n in world.gen_names(orng, orng.randint(1, 2)) if n not in allnames] if orng.random() < 0.3 else []
    as_tuple = orng.random() < 0.3
    return {"prop": "C11", "seed": seed, "scenario": s, "recipe": r, "ordering": ordering, "siblings": siblings, "via": via, "ordering_extra": extra,
            "ordering_tuple": as_tuple,
            "ordering_as_variables": om == "perm-var", "presentations": pres, "other": other, "flags": flags}


# =========================================================================== oracles


def _ordering(case: dict) -> Any:
    o = case.get("ordering")
    if o is None:
        return None
    o = list(o)
    for i, nm in enumerate(case.get("ordering_extra") or []):
        # an ordering may cover more than the variables of the expression (the ordering of a whole graph)
        o.insert((7 * i + len(nm)) % (len(o) + 1), nm)
    if case.get("ordering_as_variables"):
        o = [Variable(n) for n in o]
    return tuple(o) if case.get("ordering_tuple") else o


def diff_class(a: Any, b: Any) -> str:
    """Mechanical class of the first structural difference between two expressions."""
    if type(a) is not type(b):
        return f"type:{type(a).__name__}-vs-{type(b).__name__}"
    if isinstance(a, Probability):
        if isinstance(a, PopulationProbability) and a.population != b.population:
            return "population"
        for side in ("children", "parents"):
            xa, xb = getattr(a, side), getattr(b, side)
            if xa != xb:
                if sorted(map(ser_var, xa)) == sorted(map(ser_var, xb)):
                    names = [v.name for v in xa]
                    tie = len(set(names)) < len(names)
                    return f"variable-order/{'same-name-tie' if tie else 'no-tie'}"
                return "variables-differ"
        return "equal"
    if isinstance(a, Product):
        sa = [json.dumps(ser_expr(x)) for x in a.expressions]
        sb = [json.dumps(ser_expr(x)) for x in b.expressions]
        if sa == sb:
            return "equal"
        if sorted(sa) == sorted(sb):
            keys = [repr(x._get_key()) for x in a.expressions]
            tie = len(set(keys)) < len(keys)
            return f"factor-order/{'sort-key-tie' if tie else 'no-tie'}"
        if len(sa) != len(sb):
            return "product-shape"
        for x, y in zip(a.expressions, b.expressions):
            d = diff_class(x, y)
            if d != "equal":
                return d
        return "equal"
    if isinstance(a, Sum):
        if a.ranges != b.ranges:
            return "ranges"
        return diff_class(a.expression, b.expression)
    if isinstance(a, Fraction):
        d = diff_class(a.numerator, b.numerator)
        return d if d != "equal" else diff_class(a.denominator, b.denominator)
    return "equal" if a == b else "different"


def _hash(x: Any) -> Any:
    try:
        return hash(x)
    except TypeError:  # One/Zero define __eq__ without __hash__; the property does not ask for hashability
        return None


class StepBudget(BaseException):
    """A case executed more function calls than any terminating canonicalisation of its size needs."""


CALL_BUDGET = 3_000_000


def _bounded(fn: Any, *args: Any) -> dict:
    """Bounded liveness: function calls of this thread are counted (sys.settrace 'call' events only), so a
    canonicalisation that no longer terminates is reported as a violation instead of hanging the worker."""
    import sys

    n = [0]

    def count(frame: Any, event: str, arg: Any) -> Any:
        n[0] += 1
        if n[0] > CALL_BUDGET:
            raise StepBudget
        return None

    sys.settrace(count)
    try:
        return fn(*args)
    except StepBudget:
        return {"viol": [{"sig": "C11/O1/liveness/step-budget", "oracle": "O1", "site": "liveness", "pred": "step-budget",
                          "detail": {"calls": n[0]}}], "xd": {}, "xv": {}, "io": "budget",
                "stats": {"events": 0, "switches": 0, "hot_points": 0, "lock_waits": 0, "aborts": 0, "nontrivial": False,
                          "interleaving": None}}
    finally:
        sys.settrace(None)


def run_one_case(case: dict) -> dict:
    return _bounded(_run_one_case, case)


def _run_one_case(case: dict) -> dict:
    """Execute one case in this interpreter. Returns {viol: [...], xd: {...}, xv: {...}, io: ...}."""
    viol: list[dict] = []
    xd: dict[str, Any] = {}
    xv: dict[str, Any] = {}

    def v(oracle: str, site: str, pred: str, **detail: Any) -> None:
        viol.append({"sig": f"C11/{oracle}/{site}/{pred}", "oracle": oracle, "site": site, "pred": pred, "detail": detail})

    try:
        e = build(case["recipe"])
        o = _ordering(case)
        io = [ser_var(x) for x in e.get_variables()]
    except Exception as ex:  # noqa: BLE001 - the raw constructors refusing a well-formed expression
        v("O1", "constructor", f"raised:{type(ex).__name__}", msg=str(ex)[:200])
        return {"viol": viol, "xd": xd, "xv": xv, "io": "constructor-raised", "raised": type(ex).__name__}
    # siblings are canonicalised in this interpreter too, before or after the case itself depending on
    # the (explicit) evaluation order; the parent compares every item across interpreters
    sibs = case.get("siblings") or []
    order = case.get("eval_order") or (["obj"] + [f"sib{i}" for i in range(len(sibs))])

    def eval_sib(i: int) -> None:
        try:
            sc_ = ser_expr(canonicalize(build(sibs[i]), o))
        except Exception as ex:  # noqa: BLE001
            sc_ = f"raised:{type(ex).__name__}"
        xv[f"sib{i}"] = sc_
        xd[f"sib{i}"] = digest(sc_)

    for item in order[: order.index("obj")] if "obj" in order else []:
        eval_sib(int(item[3:]))
    after = order[order.index("obj") + 1 :] if "obj" in order else []
    try:
        c = canonicalize(e, o)
    except Exception as ex:  # noqa: BLE001
        xd["obj"] = xv["obj"] = f"raised:{type(ex).__name__}"
        # relative check only: presentations must then raise too (else presentation matters)
        for i, pr in enumerate(case["presentations"]):
            try:
                canonicalize(build(pr), o)
            except Exception:  # noqa: BLE001
                continue
            v("O2", "presentation", f"original-raises:{type(ex).__name__}-presentation-returns", pres=i)
            break
        for item in after:
            eval_sib(int(item[3:]))
        return {"viol": viol, "xd": xd, "xv": xv, "io": digest(io), "raised": type(ex).__name__}
    sc = ser_expr(c)
    xv["obj"] = sc
    xd["obj"] = digest(sc)
    xv["str"] = str(c)
    xd["str"] = digest(xv["str"])
    # ---- O1 idempotence
    try:
        c2 = canonicalize(c, o)
        if not (c2 == c):
            v("O1", "idempotence", diff_class(c, c2), first=str(c), second=str(c2))
        else:
            if _hash(c2) != _hash(c):
                v("O1", "idempotence", "hash-differs")
            if str(c2) != str(c):
                v("O1", "idempotence", "str-differs", first=str(c), second=str(c2))
    except Exception as ex:  # noqa: BLE001
        v("O1", "idempotence", f"second-pass-raised:{type(ex).__name__}", first=str(c), msg=str(ex)[:200])
    # ---- O2 presentation invariance
    for i, pr in enumerate(case["presentations"]):
        pe = build(pr)
        try:
            pc = canonicalize(pe, o)
        except Exception as ex:  # noqa: BLE001
            v("O2", "presentation", f"presentation-raised:{type(ex).__name__}", pres=i, msg=str(ex)[:200])
            continue
        if not (pc == c):
            v("O2", "presentation", diff_class(c, pc), pres=i, original=str(c), presented=str(pc))
        elif str(pc) != str(c):
            v("O2", "presentation", "str-differs", pres=i, original=str(c), presented=str(pc))
        try:
            if not canonical_expr_equal(pe, e) and pc == c:
                v("O2", "canonical_expr_equal", "false-for-presentation", pres=i)
        except Exception as ex:  # noqa: BLE001
            v("O2", "canonical_expr_equal", f"raised:{type(ex).__name__}", pres=i, msg=str(ex)[:200])
    for item in after:
        eval_sib(int(item[3:]))
    # ---- O7 transport: the same expression built in another interpreter (another hash seed) and received through
    # pickle must canonicalise to the same object (anything cached inside variable objects travels with them)
    if case.get("via") == "pickle":
        try:
            er = world._remote_build({"recipe": case["recipe"]})
            cr = canonicalize(er, o)
            if not (cr == c) or not (c == cr):
                v("O7", "unpickled-from-other-interpreter", diff_class(c, cr), local=str(c), unpickled=str(cr))
            elif str(cr) != str(c):
                v("O7", "unpickled-from-other-interpreter", "str-differs", local=str(c), unpickled=str(cr))
            elif not (er == e) or _hash(er) != _hash(e):
                v("O7", "unpickled-from-other-interpreter", "input-unequal-or-hash-differs")
        except Exception as ex:  # noqa: BLE001
            v("O7", "unpickled-from-other-interpreter", f"raised:{type(ex).__name__}", msg=str(ex)[:200])
    # ---- O5 verdicts (compared across workers by the parent)
    if case.get("other") is not None:
        try:
            xv["eq"] = bool(canonical_expr_equal(e, build(case["other"])))
        except Exception as ex:  # noqa: BLE001
            xv["eq"] = f"raised:{type(ex).__name__}"
        xd["eq"] = xv["eq"]
    return {"viol": viol, "xd": xd, "xv": xv, "io": digest(io)}


# =========================================================================== concurrent callers (O6)

INTER_EVERY = 5  # every fifth C11 scenario id is an interleaved-callers scenario


def gen_inter_case(seed: int, s: int, wid: int) -> dict:
    """2-3 callers canonicalise related expressions at the same time (same names, near-duplicates, permuted
    presentations, different orderings).  The abstract part depends on (seed, s) only; the schedule on wid too."""
    rng = random.Random(f"{seed}:C11i:{s}")
    names = world.gen_names(rng, rng.randint(3, 5), common=rng.random() < 0.5)
    flags = {"tie_first_child": rng.random() < 0.3, "same_name_cf": rng.random() < 0.2, "near_dup": rng.random() < 0.4,
             "p_pp": rng.choice((0.0, 0.15, 0.5)), "pops": ["pi1", "pi2"]}
    base = [gen_expr(rng, names, rng.choice((1, 2, 2, 3)), flags) for _ in range(rng.randint(1, 2))]
    callers: dict[str, list] = {}
    for ci in range(rng.randint(2, 3)):
        tasks = []
        for _ in range(rng.randint(1, 3)):
            r = rng.choice(base)
            x = rng.random()
            if x < 0.35:
                r2 = present(rng, r)
            elif x < 0.6:
                r2 = _sibling(rng, r, flags) or r
            elif x < 0.8:
                r2 = gen_expr(rng, names, rng.choice((1, 2, 3)), flags)
            else:
                r2 = r
            allnames = sorted(recipe_names(r2))
            om = rng.choice(("none", "alpha", "perm", "perm-var"))
            o = None if om == "none" else list(allnames)
            if om in ("perm", "perm-var"):
                rng.shuffle(o)
            tasks.append({"recipe": r2, "ordering": o, "ordering_as_variables": om == "perm-var", "pres": present(rng, r2)})
        callers[f"c{ci}"] = tasks
    prng = random.Random(f"{seed}:C11i:{s}:w{wid}")
    pol = prng.choice(("uniform", "uniform", "pct", "hot"))
    pop = {"policy": pol, "p": prng.choice((0.003, 0.02, 0.1, 0.3)) if pol == "uniform" else prng.choice((0.003, 0.02)),
           "pct_d": prng.randint(1, 4)}
    # cold: the interleaved pass runs before the sequential one (a memo filled by an uninterrupted pass would
    # hide what a pre-empted first computation leaves behind); whether it does depends on the worker, so a
    # poisoned sequential pass shows as a difference between the workers of the group
    return {"prop": "C11", "kind": "inter", "seed": seed, "scenario": s, "worker": wid, "callers": callers, "pop": pop,
            "flags": flags, "cold": prng.random() < 0.4}


def run_inter_case(case: dict, explicit: bool = False) -> dict:
    return _bounded(_run_inter_case, case, explicit)


def _run_inter_case(case: dict, explicit: bool = False) -> dict:
    """Sequential reference pass, then the same tasks with the callers interleaved; results must be identical."""
    from kernel import Sched

    viol: list[dict] = []
    xd: dict[str, Any] = {}
    xv: dict[str, Any] = {}
    stats = {"events": 0, "switches": 0, "hot_points": 0, "lock_waits": 0, "nontrivial": False, "interleaving": None}

    def task_fn(t: dict) -> Any:
        e = build(t["recipe"])
        o = _ordering(t)
        return lambda: canonicalize(e, o)

    def ser_out(status: str, val: Any) -> Any:
        if status == "ok":
            return ["ok", ser_expr(val), str(val)]
        if status == "exc":
            return ["raised", type(val).__name__]
        return [status]

    callers = case["callers"]
    seq: dict[tuple, Any] = {}
    lines: dict[tuple, int] = {}
    s0 = Sched(mode="prng", seed="seq", policy="seq")

    def mk_body(c: str, store: dict, rec_lines: dict | None) -> Any:
        def body(s: Any, name: str) -> None:
            for k, t in enumerate(callers[c]):
                status, val = s.run_op(k, task_fn(t))
                store[(c, k)] = ser_out(status, val)
                if rec_lines is not None:
                    rec_lines[(c, k)] = s.states[c].line
        return body

    def seq_pass() -> None:
        s0.run({c: mk_body(c, seq, lines) for c in sorted(callers)})

    def inter_pass() -> Any:
        if explicit or "schedule" in case:
            s1 = Sched(mode="explicit", explicit=case.get("schedule") or [], aborts=case.get("aborts") or [])
        else:
            pop = case["pop"]
            aborts = []
            arng = random.Random(f"{case['seed']}:C11i-abort:{case['scenario']}:{case['worker']}")
            if arng.random() < 0.6:
                # an injected abort inside one task: that task has no result to compare; the others still must
                # give theirs, whatever the interrupted computation left behind
                c = arng.choice(sorted(callers))
                k = arng.randrange(len(callers[c]))
                if arng.random() < 0.33:
                    aborts.append({"c": c, "o": k, "after": arng.randint(1, 20), "exc": arng.choice(("mem", "int", "rt"))})
                else:
                    aborts.append({"c": c, "o": k, "l": arng.randint(1, arng.choice((10, 40, 150))),
                                   "exc": arng.choice(("mem", "int", "rt"))})
            s1 = Sched(mode="prng", seed=f"{case['seed']}:C11i:{case['scenario']}:{case['worker']}", policy=pop["policy"],
                       p=pop["p"], pct_d=pop["pct_d"], pct_k=max(10, sum(lines.values()) or 2000), aborts=aborts)
        s1.run({c: mk_body(c, got, None) for c in sorted(callers)})
        return s1

    got: dict[tuple, Any] = {}
    if case.get("cold"):
        s1 = inter_pass()
        seq_pass()
    else:
        seq_pass()
        s1 = inter_pass()
    for (c, k), val in sorted(seq.items()):
        xv[f"{c}.{k}"] = val
        xd[f"{c}.{k}"] = digest(val)
    case["_rec_schedule"] = s1.schedule()
    case["_rec_aborts"] = [{"c": a[0], "o": a[1], "l": a[2], "exc": a[3]} for a in s1.fired_aborts]
    stats["aborts"] = len(s1.fired_aborts)
    stats["events"] = s0.events + s1.events
    stats["switches"] = s1.switches
    stats["hot_points"] = s1.hot_points
    stats["lock_waits"] = s1.blocked_yields
    inside = [x for x in s1.log if x[1] not in ("begin", "end") and x[2] > 0]
    stats["nontrivial"] = bool(inside)
    if inside:
        stats["interleaving"] = digest(s1.log)
    for key in sorted(seq):
        a, b = seq[key], got.get(key)
        if a == b or (b is not None and b[0] == "abort"):
            continue
        c, k = key
        if b is not None and b[0] == "raised" and a[0] == "ok":
            pred = f"raised-under-interleaving:{b[1]}"
        elif b is not None and b[0] == "ok" and a[0] == "ok":
            pred = "result-differs-from-sequential" if a[1] != b[1] else "str-differs-from-sequential"
        else:
            pred = "outcome-differs-from-sequential"
        viol.append({"sig": f"C11/O6/concurrent-callers/{pred}", "oracle": "O6", "site": "concurrent-callers", "pred": pred,
                     "detail": {"caller": c, "task": k, "sequential": a, "interleaved": b}})
        break
    # afterwards, at quiescence: the normal-form oracles once more on every task (same orderings), so that whatever
    # a pre-empted or aborted computation left behind in the code under test shows up as a plain O1 / O2 violation
    if not viol:
        for c in sorted(callers):
            for k, t in enumerate(callers[c]):
                try:
                    o = _ordering(t)
                    c1 = canonicalize(build(t["recipe"]), o)
                    if not (canonicalize(c1, o) == c1):
                        viol.append({"sig": "C11/O1/idempotence-after-concurrent-callers/" + diff_class(c1, canonicalize(c1, o)),
                                     "oracle": "O1", "site": "idempotence-after-concurrent-callers", "pred": "differs",
                                     "detail": {"caller": c, "task": k, "first": str(c1)}})
                        break
                    if t.get("pres") is not None:
                        c2 = canonicalize(build(t["pres"]), o)
                        if not (c2 == c1):
                            viol.append({"sig": "C11/O2/presentation-after-concurrent-callers/" + diff_class(c1, c2),
                                         "oracle": "O2", "site": "presentation-after-concurrent-callers", "pred": "differs",
                                         "detail": {"caller": c, "task": k, "original": str(c1), "presented": str(c2)}})
                            break
                except Exception as ex:  # noqa: BLE001
                    if seq.get((c, k), ["?"])[0] == "ok":
                        viol.append({"sig": f"C11/O6/after-concurrent-callers/raised:{type(ex).__name__}", "oracle": "O6",
                                     "site": "after-concurrent-callers", "pred": f"raised:{type(ex).__name__}",
                                     "detail": {"caller": c, "task": k, "msg": str(ex)[:200]}})
                        break
            if viol:
                break
    e0 = build(callers[sorted(callers)[0]][0]["recipe"])
    io = [ser_var(x) for x in e0.get_variables()]
    return {"viol": viol, "xd": xd, "xv": xv, "io": digest(io), "stats": stats}


def explicit_inter(case: dict) -> dict:
    out = copy.deepcopy({k: v for k, v in case.items() if k not in ("_rec_schedule", "_rec_aborts", "pop")})
    out["schedule"] = case.get("_rec_schedule", case.get("schedule", []))
    out["aborts"] = case.get("_rec_aborts", case.get("aborts", []))
    return out


def minimise_inter(case: dict, sig: str, max_runs: int = 300) -> tuple[dict, dict]:
    used = 0
    info: dict[str, Any] = {"sig": sig, "steps": []}

    def fails(c: dict) -> bool:
        nonlocal used
        if used >= max_runs:
            return False
        used += 1
        try:
            return any(x["sig"] == sig for x in run_inter_case(copy.deepcopy(c), explicit=True)["viol"])
        except Exception:  # noqa: BLE001
            return False

    cur = copy.deepcopy(case)
    if not fails(cur):
        info["reproduced"] = False
        info["runs"] = used
        return cur, info
    info["reproduced"] = True
    c = copy.deepcopy(cur)
    c["schedule"] = []
    info["interleaving_needed"] = not fails(c)
    if not info["interleaving_needed"]:
        cur = c
    # tasks -> trivial placeholder (indices stay stable for the schedule)
    for cn in sorted(cur["callers"]):
        for k in range(len(cur["callers"][cn])):
            c = copy.deepcopy(cur)
            c["callers"][cn][k] = {"recipe": ["1"], "ordering": None, "ordering_as_variables": False, "pres": None}
            if c["callers"][cn][k] != cur["callers"][cn][k] and fails(c):
                cur = c
                info["steps"].append(f"task-{cn}.{k}-trivial")
    # schedule entries
    inner = [e for e in cur.get("schedule", []) if e[1] not in ("begin", "end")]
    i = 0
    while i < len(inner) and used < max_runs:
        cand = inner[:i] + inner[i + 1 :]
        c = copy.deepcopy(cur)
        keep = [tuple(e) for e in cand]
        c["schedule"] = [e for e in cur["schedule"] if e[1] in ("begin", "end") or tuple(e) in keep]
        if fails(c):
            cur, inner = c, cand
        else:
            i += 1
    info["steps"].append(f"switches->{len(inner)}")
    # shrink the remaining recipes
    for cn in sorted(cur["callers"]):
        for k in range(len(cur["callers"][cn])):
            progress = True
            while progress and used < max_runs:
                progress = False
                for cand in _shrinks(cur["callers"][cn][k]["recipe"]):
                    c = copy.deepcopy(cur)
                    t = c["callers"][cn][k]
                    t["recipe"] = cand
                    t["pres"] = present(random.Random("shrink"), cand) if t.get("pres") is not None else None
                    if t.get("ordering") is not None:
                        nm = recipe_names(cand)
                        t["ordering"] = [n for n in t["ordering"] if n in nm] + sorted(nm - set(t["ordering"]))
                    if fails(c):
                        cur = c
                        progress = True
                        info["steps"].append(f"shrink-{cn}.{k}")
                        break
    info["runs"] = used
    return cur, info


def make_case(seed: int, s: int, wid: int) -> dict:
    if s % INTER_EVERY == INTER_EVERY - 1:
        return gen_inter_case(seed, s, wid)
    c = gen_case(seed, s)
    c["eval_order"] = eval_order(c, wid)
    return c


def run_any(case: dict) -> dict:
    return run_inter_case(case) if case.get("kind") == "inter" else run_one_case(case)


# =========================================================================== worker entry points


def eval_order(case: dict, wid: int) -> list[str]:
    items = ["obj"] + [f"sib{i}" for i in range(len(case.get("siblings") or []))]
    k = wid % 4
    if k == 1:
        items.reverse()
    elif k in (2, 3):
        random.Random(f"evalorder:{case['seed']}:{case['scenario']}:{wid}").shuffle(items)
    return items


def run_range(args: dict, out: Any) -> None:
    seed, wid = args["seed"], args["wid"]
    t0 = time.time()
    done = 0
    agg: dict[str, Any] = {"top_types": {}, "canon_types": {}, "flags": {}, "raised": {}, "presentations": 0,
                           "verdict_pairs": 0, "str_contains_level2": 0}
    samples = []
    inter: set = set()
    nontrivial = 0
    from order import scenario_order

    for s in scenario_order(args["lo"], args["hi"], seed, wid):
        if time.time() - t0 > args.get("wall", 1e9):
            break
        if s % INTER_EVERY == INTER_EVERY - 1:
            case = gen_inter_case(seed, s, wid)
            case["hashseed"] = args["hashseed"]
            res = run_inter_case(case)
            done += 1
            st = res["stats"]
            for k in ("events", "switches", "hot_points", "lock_waits", "aborts"):
                agg[k] = agg.get(k, 0) + st.get(k, 0)
            agg["inter_scenarios"] = agg.get("inter_scenarios", 0) + 1
            agg["inter_tasks"] = agg.get("inter_tasks", 0) + sum(len(v) for v in case["callers"].values())
            nontrivial += int(st["nontrivial"])
            if st["interleaving"]:
                inter.add(st["interleaving"])
            line = {"t": "scen", "s": s, "w": wid, "hs": args["hashseed"], "xd": res["xd"], "io": res["io"],
                    "ed": digest([res["xd"], case.get("_rec_schedule"), case.get("_rec_aborts")])}
            if res["viol"]:
                line["viol"] = res["viol"][:10]
                line["case"] = explicit_inter(case)
            out.write(json.dumps(line) + "\n")
            continue
        case = gen_case(seed, s)
        case["hashseed"] = args["hashseed"]
        case["eval_order"] = eval_order(case, wid)
        res = run_one_case(case)
        done += 1
        tt = case["recipe"][0]
        agg["top_types"][tt] = agg["top_types"].get(tt, 0) + 1
        for k, val in case["flags"].items():
            if val is True:
                agg["flags"][k] = agg["flags"].get(k, 0) + 1
        if "raised" in res:
            agg["raised"][res["raised"]] = agg["raised"].get(res["raised"], 0) + 1
        else:
            ct = res["xv"]["obj"][0]
            agg["canon_types"][ct] = agg["canon_types"].get(ct, 0) + 1
            if "P[" in res["xv"]["str"] or "][" in res["xv"]["str"]:
                agg["str_contains_level2"] += 1
        agg["presentations"] += len(case["presentations"])
        agg["verdict_pairs"] += int(case.get("other") is not None)
        line: dict[str, Any] = {"t": "scen", "s": s, "w": wid, "hs": args["hashseed"], "xd": res["xd"], "io": res["io"]}
        if res["viol"]:
            line["viol"] = res["viol"][:10]
            line["case"] = case
        if len(samples) < 1 and tt != "P":
            samples.append({"scenario": s, "hashseed": args["hashseed"], "recipe": case["recipe"],
                            "ordering": case["ordering"], "presentations": case["presentations"][:2],
                            "canonical_str": res["xv"].get("str")})
        out.write(json.dumps(line) + "\n")
    out.write(json.dumps({"t": "stats", "w": wid, "hashseed": args["hashseed"], "done": done, "agg": agg,
                          "interleavings": sorted(inter), "nontrivial": nontrivial, "samples": samples,
                          "wall": time.time() - t0}) + "\n")


def replay(case: dict) -> dict:
    if case.get("kind") == "inter":
        res = run_inter_case(case, explicit=True)
        return {"t": "replay", "viol": res["viol"], "xd": res["xd"], "xv": res["xv"],
                "ed": digest([res["xd"], res["io"], case.get("_rec_schedule")])}
    res = run_one_case(case)
    return {"t": "replay", "viol": res["viol"], "xd": res["xd"], "xv": res["xv"], "ed": digest([res["xd"], res["io"]])}


# =========================================================================== minimisation (single interpreter)


def _subrecipes(r: list) -> list[list]:
    t = r[0]
    if t == "*":
        return list(r[1])
    if t == "S":
        return [r[2]]
    if t == "/":
        return [r[1], r[2]]
    return []


def _shrinks(r: list) -> list[list]:
    """Candidate smaller recipes (one step)."""
    out: list[list] = []
    t = r[0]
    out += _subrecipes(r)
    if t == "*":
        if len(r[1]) > 2:
            for i in range(len(r[1])):
                out.append(["*", r[1][:i] + r[1][i + 1 :]])
        for i, x in enumerate(r[1]):
            for sx in _shrinks(x):
                out.append(["*", r[1][:i] + [sx] + r[1][i + 1 :]])
    elif t == "S":
        if len(r[1]) > 1:
            for i in range(len(r[1])):
                out.append(["S", r[1][:i] + r[1][i + 1 :], r[2]])
        for sx in _shrinks(r[2]):
            out.append(["S", r[1], sx])
    elif t == "/":
        for sx in _shrinks(r[1]):
            out.append(["/", sx, r[2]])
        for sx in _shrinks(r[2]):
            if not _has_zero(sx):
                out.append(["/", r[1], sx])
    elif t in ("P", "PP"):
        ci, pi = (1, 2) if t == "P" else (2, 3)
        if t == "PP":
            out.append(["P", r[2], r[3]])
        for idx in (ci, pi):
            vs = r[idx]
            for i in range(len(vs)):
                if idx == ci and len(vs) == 1:
                    continue
                nr = list(r)
                nr[idx] = vs[:i] + vs[i + 1 :]
                out.append(nr)
            for i, var in enumerate(vs):
                if var[1] is not None:
                    nr = list(r)
                    nr[idx] = vs[:i] + [[var[0], None, var[2]]] + vs[i + 1 :]
                    out.append(nr)
                for j in range(len(var[2])):
                    nr = list(r)
                    nr[idx] = vs[:i] + [[var[0], var[1], var[2][:j] + var[2][j + 1 :]]] + vs[i + 1 :]
                    out.append(nr)
    return out


def shrink_case(case: dict, fails: Any, max_runs: int) -> tuple[dict, dict]:
    """Greedy shrinking of a C11 case while fails(case) holds."""
    used = 0
    cur = copy.deepcopy(case)
    info: dict[str, Any] = {"steps": []}

    def t(c: dict) -> bool:
        nonlocal used
        if used >= max_runs:
            return False
        used += 1
        try:
            return bool(fails(c))
        except Exception:  # noqa: BLE001
            return False

    if not t(cur):
        info["reproduced"] = False
        info["runs"] = used
        return cur, info
    info["reproduced"] = True
    # presentations: keep one
    for i in range(len(cur["presentations"])):
        c = dict(cur, presentations=[cur["presentations"][i]])
        if t(c):
            cur = c
            info["steps"].append("one-presentation")
            break
    c = dict(cur, presentations=[])
    if t(c):
        cur = c
        info["steps"].append("no-presentation")
    if cur.get("other") is not None:
        c = dict(cur, other=None)
        if t(c):
            cur = c
    if cur.get("ordering") is not None:
        c = dict(cur, ordering=None)
        if t(c):
            cur = c
            info["steps"].append("ordering-none")
    progress = True
    while progress and used < max_runs:
        progress = False
        for cand in _shrinks(cur["recipe"]):
            c = copy.deepcopy(cur)
            c["recipe"] = cand
            names = recipe_names(cand) | {n for p in c["presentations"] for n in recipe_names(p)}
            if c.get("ordering") is not None:
                c["ordering"] = [n for n in c["ordering"] if n in names] + sorted(names - set(c["ordering"]))
            if c["presentations"]:
                # re-derive the presentation from the shrunk recipe deterministically: try a few permutations
                ok = False
                for k in range(4):
                    c["presentations"] = [present(random.Random(f"shrink:{k}"), cand)]
                    if t(c):
                        ok = True
                        break
                if not ok:
                    continue
            elif not t(c):
                continue
            cur = c
            progress = True
            info["steps"].append("shrink-recipe")
            break
    info["runs"] = used
    return cur, info


def minimise(case: dict, sig: str, max_runs: int = 400) -> tuple[dict, dict]:
    if case.get("kind") == "inter":
        return minimise_inter(case, sig, max_runs)

    def fails(c: dict) -> bool:
        return any(x["sig"] == sig for x in run_one_case(c)["viol"])

    small, info = shrink_case(case, fails, max_runs)
    info["sig"] = sig
    return small, info
