"""Delta-debugging minimiser for graph-simulation cases (runs inside an interpreter with the case's hash seed).

A candidate is accepted only if a fresh execution still produces a violation with the
*same signature*.  Bounded number of executions.
"""

from __future__ import annotations

import copy
from typing import Any, Callable

import world
from graphsim import run_case


class Budget:
    def __init__(self, n: int) -> None:
        self.left = n
        self.used = 0


def _fails(case: dict, sig: str, budget: Budget) -> bool:
    if budget.left <= 0:
        return False
    budget.left -= 1
    budget.used += 1
    try:
        cr = run_case(copy.deepcopy(case), explicit=True)
    except Exception:  # noqa: BLE001 - a candidate that breaks the harness is simply rejected
        return False
    return any(v["sig"] == sig for v in cr.violations)


def _ddmin_list(items: list, test: Callable[[list], bool]) -> list:
    """Classic ddmin on a list: returns a 1-minimal-ish sublist for which test() holds."""
    n = 2
    while len(items) >= 1:
        chunk = max(1, len(items) // n)
        reduced = False
        for i in range(0, len(items), chunk):
            cand = items[:i] + items[i + chunk :]
            if test(cand):
                items = cand
                n = max(n - 1, 2)
                reduced = True
                break
        if not reduced:
            if chunk == 1:
                break
            n = min(len(items), n * 2)
    return items


def restrict_history(h: dict, g: dict) -> dict:
    """Filter a history so that it denotes the (shrunk) abstract graph g, keeping its shape and order."""
    N = set(g["nodes"])
    D = {tuple(e) for e in g["D"]}
    B = {frozenset(e) for e in g["B"]}
    out = {"ctor": h["ctor"], "copy": h.get("copy", False)}
    if h.get("via"):
        out["via"] = h["via"]
    if h["ctor"] == "incremental":
        steps = []
        for s in h["steps"]:
            if s[0] == "n" and s[1] in N:
                steps.append(s)
            elif s[0] == "d" and (s[1], s[2]) in D:
                steps.append(s)
            elif s[0] == "b" and frozenset(s[1:3]) in B:
                steps.append(s)
        covered = {x for s in steps for x in s[1:]}
        steps += [["n", x] for x in g["nodes"] if x not in covered]
        out["steps"] = steps
        return out
    if h["ctor"] in ("from_edges", "from_str_edges"):
        out["directed"] = [e for e in h["directed"] if tuple(e) in D]
        out["undirected"] = [e for e in h["undirected"] if frozenset(e) in B]
        covered = {x for e in out["directed"] + out["undirected"] for x in e}
    else:
        out["directed"] = [[k, [v for v in vs if (k, v) in D]] for k, vs in h["directed"] if k in N]
        out["undirected"] = [[k, [v for v in vs if frozenset((k, v)) in B]] for k, vs in h["undirected"] if k in N]
        covered = {k for k, _ in out["directed"] + out["undirected"]} | {
            v for _, vs in out["directed"] + out["undirected"] for v in vs
        }
    nodes = [x for x in h["nodes"] if x in N]
    nodes += [x for x in g["nodes"] if x not in covered and x not in nodes]
    out["nodes"] = nodes
    return out


def _strip_node(case: dict, gi: int, n: str) -> dict | None:
    """Remove node n from abstract graph gi and from every argument that mentions it."""
    c = copy.deepcopy(case)
    g = c["graphs"][gi]
    if n not in g["nodes"]:
        return None
    g["nodes"] = [x for x in g["nodes"] if x != n]
    g["D"] = [e for e in g["D"] if n not in e]
    g["B"] = [e for e in g["B"] if n not in e]
    if g.get("order"):
        g["order"] = [x for x in g["order"] if x != n]
    c["histories"][gi] = restrict_history(c["histories"][gi], g)
    for rnd in c["rounds"]:
        for script in rnd["scripts"].values():
            for spec in script:
                a = spec.get("a") or {}
                for k in ("S", "T"):
                    if k in a:
                        a[k] = [x for x in a[k] if x != n]
                        ck = {"S": "cS" if "cS" in a else "c", "T": "cT"}[k]
                        if a.get(ck) == "single" and len(a[k]) != 1:
                            a[ck] = "list"
                if "C" in a:
                    a["C"] = [x for x in a["C"] if x != n]
                if "I" in a:
                    a["I"] = [x for x in a["I"] if x[0] != n]
                if a.get("order"):
                    a["order"] = [x for x in a["order"] if x != n]
        rnd["evolve"] = [
            [gj, [s for s in steps if gj != gi or n not in s[1:]]] for gj, steps in rnd.get("evolve", [])
        ]
        if rnd.get("evolve_results"):
            rnd["evolve_results"] = [[rk, [s for s in steps if n not in s[1:]]] for rk, steps in rnd["evolve_results"]]
    for q in c.get("queries", []):
        if q["g"] == gi:
            q["X"] = [x for x in q["X"] if x != n]
            q["Y"] = [x for x in q["Y"] if x != n]
    return c


def minimise(case: dict, sig: str, max_runs: int = 400) -> tuple[dict, dict]:
    """Return (minimised explicit case, info) for a violation observed inside one execution."""
    if max(len(g["nodes"]) for g in case["graphs"]) > 200:
        max_runs = min(max_runs, 60)  # a run on a 1 000-node chain costs seconds, not milliseconds
    budget = Budget(max_runs)
    cases, info = minimise_many([case], lambda cs: _fails(cs[0], sig, budget), budget)
    info["sig"] = sig
    return cases[0], info


def minimise_many(cases: list[dict], fails: Callable[[list[dict]], bool], budget: Budget) -> tuple[list[dict], dict]:
    """Delta-debug one or several realisations of the same abstract scenario *jointly*.

    Every edit (drop a round, an op, a node, an edge, an argument ...) is applied to all
    realisations; schedules and construction histories are per realisation.  `fails`
    decides whether a candidate list still shows the violation.
    """
    info: dict[str, Any] = {"steps": []}
    if not fails(cases):
        info["reproduced"] = False
        return cases, info
    info["reproduced"] = True
    cur = copy.deepcopy(cases)

    def attempt(cand: list | None, label: str) -> bool:
        nonlocal cur
        if cand is None or any(c is None for c in cand):
            return False
        if budget.left <= 0:
            return False
        if fails(cand):
            cur = cand
            info["steps"].append(label)
            return True
        return False

    def each(f: Callable[[dict], dict | None]) -> list:
        return [f(copy.deepcopy(c)) for c in cur]

    # 1. populations: seq alone, else seq + one other
    def only_pops(names: tuple) -> Callable[[dict], dict]:
        def f(c: dict) -> dict:
            c["pops"] = [p for p in c["pops"] if p["name"] in names]
            return c
        return f

    if not attempt(each(only_pops(("seq",))), "only-sequential-population") and len(cur[0]["pops"]) > 2:
        for name in [p["name"] for p in cur[0]["pops"] if p["name"] != "seq"]:
            if attempt(each(only_pops(("seq", name))), f"only-population-{name}"):
                break
    # 2. is it an interleaving bug at all?
    nonseq = [p for p in cur[0]["pops"] if p["name"] != "seq"]
    if nonseq:
        def seq_sched(c: dict) -> dict:
            for p in c["pops"]:
                if p["name"] != "seq":
                    p["schedule"] = {}
            return c

        info["interleaving_needed"] = not attempt(each(seq_sched), "schedule-made-sequential")

        def no_aborts(c: dict) -> dict:
            for p in c["pops"]:
                p["aborts"] = {}
            return c

        if any(p.get("aborts") and any(p["aborts"].values()) for c in cur for p in c["pops"]):
            info["abort_needed"] = not attempt(each(no_aborts), "aborts-dropped")
    # 3. rounds from the end
    while len(cur[0]["rounds"]) > 1:
        def drop_last(c: dict) -> dict:
            c["rounds"].pop()
            return c

        if not attempt(each(drop_last), "drop-last-round"):
            break
    # 4. ops -> nop (indices stay stable so schedules and references keep their meaning)
    ops = [
        (r, cn, k)
        for r, rnd in enumerate(cur[0]["rounds"])
        for cn in sorted(rnd["scripts"])
        for k, spec in enumerate(rnd["scripts"][cn])
        if spec["op"] != "nop"
    ]

    def with_ops(keep: list) -> list:
        ks = set(keep)

        def f(c: dict) -> dict:
            for r, rnd in enumerate(c["rounds"]):
                for cn in rnd["scripts"]:
                    for k, spec in enumerate(rnd["scripts"][cn]):
                        if spec["op"] != "nop" and (r, cn, k) not in ks:
                            rnd["scripts"][cn][k] = {"op": "nop"}
            return c

        return each(f)

    kept = _ddmin_list(ops, lambda keep: budget.left > 0 and fails(with_ops(keep)))
    cur = with_ops(kept)
    info["steps"].append(f"ops {len(ops)}->{len(kept)}")

    # drop callers that only have nops, trailing nops
    def drop_idle(c: dict) -> dict:
        for rnd in c["rounds"]:
            for cn in list(rnd["scripts"]):
                sc = rnd["scripts"][cn]
                while sc and sc[-1]["op"] == "nop":
                    sc.pop()
                if not sc:
                    del rnd["scripts"][cn]
        return c

    attempt(each(drop_idle), "drop-idle-callers")

    # queries no remaining op refers to (indices stay stable: the entry becomes a placeholder)
    def drop_unused_queries(c: dict) -> dict:
        used = {spec.get("q") for rnd in c["rounds"] for sc in rnd["scripts"].values() for spec in sc if "q" in spec}
        for qi, q in enumerate(c.get("queries") or []):
            if qi not in used:
                c["queries"][qi] = {"g": 10**6, "X": [], "Y": []}
        return c

    if cur[0].get("queries"):
        attempt(each(drop_unused_queries), "drop-unused-queries")
    # 5. evolve steps
    for r, rnd in enumerate(cur[0]["rounds"]):
        for field in ("evolve", "evolve_results"):
            if rnd.get(field):
                def drop_ev(c: dict, r: int = r, field: str = field) -> dict:
                    c["rounds"][r][field] = []
                    return c

                attempt(each(drop_ev), f"drop-{field}-{r}")
    # 6. schedule entries and aborts (per realisation)
    for ci in range(len(cur)):
        for pi, p in enumerate(cur[ci]["pops"]):
            for r in list((p.get("schedule") or {}).keys()):
                entries = cur[ci]["pops"][pi]["schedule"][r]
                inner = [e for e in entries if e[1] not in ("begin", "end")]
                if not inner:
                    continue

                def with_sched(keep: list, ci: int = ci, pi: int = pi, r: str = r, entries: list = entries) -> list:
                    cand = copy.deepcopy(cur)
                    ks = [tuple(e) for e in keep]
                    cand[ci]["pops"][pi]["schedule"][r] = [
                        e for e in entries if e[1] in ("begin", "end") or tuple(e) in ks
                    ]
                    return cand

                kept_s = _ddmin_list(inner, lambda keep: budget.left > 0 and fails(with_sched(keep)))
                cur = with_sched(kept_s)
                info["steps"].append(f"switches[{ci},{p['name']},{r}] {len(inner)}->{len(kept_s)}")
    # 7. histories -> canonical (per realisation and graph)
    for ci in range(len(cur)):
        for gi in range(len(cur[ci]["graphs"])):
            cand = copy.deepcopy(cur)
            cand[ci]["histories"][gi] = world.canonical_history(cand[ci]["graphs"][gi])
            if attempt(cand, f"history-{ci}.{gi}-canonical"):
                info.setdefault("history_irrelevant", []).append([ci, gi])
    # 8. nodes, then edges
    for gi in range(len(cur[0]["graphs"])):
        if len(cur[0]["graphs"][gi]["nodes"]) > 40:
            # a long chain: drop nodes in halves first (one at a time would take a run per node)
            def without(keep: list, gi: int = gi) -> list:
                drop = [x for x in cur[0]["graphs"][gi]["nodes"] if x not in set(keep)]
                out = copy.deepcopy(cur)
                for x in drop:
                    out = [_strip_node(c, gi, x) for c in out]
                    if any(c is None for c in out):
                        return cur
                return out

            kept_nodes = _ddmin_list(list(cur[0]["graphs"][gi]["nodes"]),
                                     lambda keep: budget.left > 0 and fails(without(keep)))
            cur = without(kept_nodes)
            info["steps"].append(f"nodes-{gi}->{len(kept_nodes)}")
            continue
        for n in list(cur[0]["graphs"][gi]["nodes"]):
            attempt([_strip_node(c, gi, n) for c in cur], f"drop-node-{gi}-{n}")
        for kind in ("D", "B"):
            for e in list(cur[0]["graphs"][gi][kind]):
                def drop_edge(c: dict, gi: int = gi, kind: str = kind, e: list = e) -> dict:
                    g = c["graphs"][gi]
                    g[kind] = [x for x in g[kind] if x != e]
                    c["histories"][gi] = restrict_history(c["histories"][gi], g)
                    return c

                attempt(each(drop_edge), f"drop-edge-{gi}-{kind}-{e}")
    # 9. argument sets
    for r, rnd in enumerate(cur[0]["rounds"]):
        for cn in sorted(rnd["scripts"]):
            for k, spec in enumerate(rnd["scripts"][cn]):
                a = spec.get("a") or {}
                for key in ("S", "T", "I", "C"):
                    for x in list(a.get(key, [])):
                        def shrink(c: dict, r: int = r, cn: str = cn, k: int = k, key: str = key, x: Any = x) -> dict:
                            aa = c["rounds"][r]["scripts"][cn][k]["a"]
                            aa[key] = [y for y in aa[key] if y != x]
                            for ck in ("c", "cS", "cT"):
                                if aa.get(ck) == "single":
                                    aa[ck] = "list"
                            return c

                        attempt(each(shrink), f"shrink-arg-{r}.{cn}.{k}.{key}")
    info["runs"] = budget.used
    return cur, info
