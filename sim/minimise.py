"""Delta-debugging minimiser for graph-simulation cases (runs inside an interpreter with the case's hash seed).

A candidate is accepted only if a fresh execution still produces a violation with the
*same signature*.  Bounded number of executions.
"""

from __future__ import annotations

import copy
from typing import Any, Callable

import world
from graphsim import run_case


class Budget:
    def __init__(self, n: int) -> None:
        self.left = n
        self.used = 0


def _fails(case: dict, sig: str, budget: Budget) -> bool:
    if budget.left <= 0:
        return False
    budget.left -= 1
    budget.used += 1
    try:
        cr = run_case(copy.deepcopy(case), explicit=True)
    except Exception:  # noqa: BLE001 - a candidate that breaks the harness is simply rejected
        return False
    return any(v["sig"] == sig for v in cr.violations)


def _ddmin_list(items: list, test: Callable[[list], bool]) -> list:
    """Classic ddmin on a list: returns a 1-minimal-ish sublist for which test() holds."""
    n = 2
    while len(items) >= 1:
        chunk = max(1, len(items) // n)
        reduced = False
        for i in range(0, len(items), chunk):
            cand = items[:i] + items[i + chunk :]
            if test(cand):
                items = cand
                n = max(n - 1, 2)
                reduced = True
                break
        if not reduced:
            if chunk == 1:
                break
            n = min(len(items), n * 2)
    return items


def restrict_history(h: dict, g: dict) -> dict:
    """Filter a history so that it denotes the (shrunk) abstract graph g, keeping its shape and order."""
    N = set(g["nodes"])
    D = {tuple(e) for e in g["D"]}
    B = {frozenset(e) for e in g["B"]}
    out = {"ctor": h["ctor"], "copy": h.get("copy", False)}
    if h["ctor"] == "incremental":
        steps = []
        for s in h["steps"]:
            if s[0] == "n" and s[1] in N:
                steps.append(s)
            elif s[0] == "d" and (s[1], s[2]) in D:
                steps.append(s)
            elif s[0] == "b" and frozenset(s[1:3]) in B:
                steps.append(s)
        covered = {x for s in steps for x in s[1:]}
        steps += [["n", x] for x in g["nodes"] if x not in covered]
        out["steps"] = steps
        return out
    if h["ctor"] in ("from_edges", "from_str_edges"):
        out["directed"] = [e for e in h["directed"] if tuple(e) in D]
        out["undirected"] = [e for e in h["undirected"] if frozenset(e) in B]
        covered = {x for e in out["directed"] + out["undirected"] for x in e}
    else:
        out["directed"] = [[k, [v for v in vs if (k, v) in D]] for k, vs in h["directed"] if k in N]
        out["undirected"] = [[k, [v for v in vs if frozenset((k, v)) in B]] for k, vs in h["undirected"] if k in N]
        covered = {k for k, _ in out["directed"] + out["undirected"]} | {
            v for _, vs in out["directed"] + out["undirected"] for v in vs
        }
    nodes = [x for x in h["nodes"] if x in N]
    nodes += [x for x in g["nodes"] if x not in covered and x not in nodes]
    out["nodes"] = nodes
    return out


def _strip_node(case: dict, gi: int, n: str) -> dict | None:
    """Remove node n from abstract graph gi and from every argument that mentions it."""
    c = copy.deepcopy(case)
    g = c["graphs"][gi]
    if n not in g["nodes"]:
        return None
    g["nodes"] = [x for x in g["nodes"] if x != n]
    g["D"] = [e for e in g["D"] if n not in e]
    g["B"] = [e for e in g["B"] if n not in e]
    if g.get("order"):
        g["order"] = [x for x in g["order"] if x != n]
    c["histories"][gi] = restrict_history(c["histories"][gi], g)
    for rnd in c["rounds"]:
        for script in rnd["scripts"].values():
            for spec in script:
                a = spec.get("a") or {}
                for k in ("S", "T"):
                    if k in a:
                        a[k] = [x for x in a[k] if x != n]
                        ck = {"S": "cS" if "cS" in a else "c", "T": "cT"}[k]
                        if a.get(ck) == "single" and len(a[k]) != 1:
                            a[ck] = "list"
                if "I" in a:
                    a["I"] = [x for x in a["I"] if x[0] != n]
                if a.get("order"):
                    a["order"] = [x for x in a["order"] if x != n]
        rnd["evolve"] = [
            [gj, [s for s in steps if gj != gi or n not in s[1:]]] for gj, steps in rnd.get("evolve", [])
        ]
    for q in c.get("queries", []):
        if q["g"] == gi:
            q["X"] = [x for x in q["X"] if x != n]
            q["Y"] = [x for x in q["Y"] if x != n]
    return c


def minimise(case: dict, sig: str, max_runs: int = 400) -> tuple[dict, dict]:
    """Return (minimised explicit case, info)."""
    budget = Budget(max_runs)
    info: dict[str, Any] = {"sig": sig, "steps": []}
    if not _fails(case, sig, budget):
        info["reproduced"] = False
        return case, info
    info["reproduced"] = True
    cur = copy.deepcopy(case)

    def attempt(cand: dict | None, label: str) -> bool:
        nonlocal cur
        if cand is None:
            return False
        if _fails(cand, sig, budget):
            cur = cand
            info["steps"].append(label)
            return True
        return False

    # 1. populations: seq alone, else seq + one other
    c = copy.deepcopy(cur)
    c["pops"] = [p for p in c["pops"] if p["name"] == "seq"]
    if not attempt(c, "only-sequential-population") and len(cur["pops"]) > 2:
        for name in [p["name"] for p in cur["pops"] if p["name"] != "seq"]:
            c = copy.deepcopy(cur)
            c["pops"] = [p for p in c["pops"] if p["name"] in ("seq", name)]
            if attempt(c, f"only-population-{name}"):
                break
    # 2. is it an interleaving bug at all?
    nonseq = [p for p in cur["pops"] if p["name"] != "seq"]
    if nonseq:
        c = copy.deepcopy(cur)
        for p in c["pops"]:
            if p["name"] != "seq":
                p["schedule"] = {}
        if attempt(c, "schedule-made-sequential"):
            info["interleaving_needed"] = False
        else:
            info["interleaving_needed"] = True
        c = copy.deepcopy(cur)
        for p in c["pops"]:
            p["aborts"] = {}
        if any(p.get("aborts") for p in cur["pops"]):
            info["abort_needed"] = not attempt(c, "aborts-dropped")
    # 3. rounds from the end
    while len(cur["rounds"]) > 1:
        c = copy.deepcopy(cur)
        c["rounds"].pop()
        if not attempt(c, "drop-last-round"):
            break
    # 4. ops -> nop (indices stay stable so schedules and references keep their meaning)
    ops = [
        (r, cn, k)
        for r, rnd in enumerate(cur["rounds"])
        for cn in sorted(rnd["scripts"])
        for k, spec in enumerate(rnd["scripts"][cn])
        if spec["op"] != "nop"
    ]

    def with_ops(keep: list) -> dict:
        c = copy.deepcopy(cur)
        ks = set(keep)
        for r, rnd in enumerate(c["rounds"]):
            for cn in rnd["scripts"]:
                for k, spec in enumerate(rnd["scripts"][cn]):
                    if spec["op"] != "nop" and (r, cn, k) not in ks:
                        rnd["scripts"][cn][k] = {"op": "nop"}
        return c

    kept = _ddmin_list(ops, lambda keep: _fails(with_ops(keep), sig, budget))
    cur = with_ops(kept)
    info["steps"].append(f"ops {len(ops)}->{len(kept)}")
    # drop callers that only have nops, trailing nops
    c = copy.deepcopy(cur)
    for rnd in c["rounds"]:
        for cn in list(rnd["scripts"]):
            sc = rnd["scripts"][cn]
            while sc and sc[-1]["op"] == "nop":
                sc.pop()
            if not sc:
                del rnd["scripts"][cn]
    attempt(c, "drop-idle-callers")
    # 5. evolve steps
    for r, rnd in enumerate(cur["rounds"]):
        if rnd.get("evolve"):
            c = copy.deepcopy(cur)
            c["rounds"][r]["evolve"] = []
            attempt(c, f"drop-evolve-{r}")
    # 6. schedule entries and aborts
    for pi, p in enumerate(cur["pops"]):
        for r in list((p.get("schedule") or {}).keys()):
            entries = cur["pops"][pi]["schedule"][r]
            inner = [e for e in entries if e[1] not in ("begin", "end")]
            if not inner:
                continue

            def with_sched(keep: list, pi: int = pi, r: str = r, entries: list = entries) -> dict:
                c = copy.deepcopy(cur)
                ks = [tuple(e) for e in keep]
                c["pops"][pi]["schedule"][r] = [
                    e for e in entries if e[1] in ("begin", "end") or tuple(e) in ks
                ]
                return c

            kept_s = _ddmin_list(inner, lambda keep: _fails(with_sched(keep), sig, budget))
            cur = with_sched(kept_s)
            info["steps"].append(f"switches[{p['name']},{r}] {len(inner)}->{len(kept_s)}")
    # 7. histories -> canonical
    for gi in range(len(cur["graphs"])):
        c = copy.deepcopy(cur)
        c["histories"][gi] = world.canonical_history(c["graphs"][gi])
        if attempt(c, f"history-{gi}-canonical"):
            info.setdefault("history_irrelevant", []).append(gi)
    # 8. nodes, then edges
    for gi in range(len(cur["graphs"])):
        for n in list(cur["graphs"][gi]["nodes"]):
            attempt(_strip_node(cur, gi, n), f"drop-node-{gi}-{n}")
        for kind in ("D", "B"):
            for e in list(cur["graphs"][gi][kind]):
                c = copy.deepcopy(cur)
                g = c["graphs"][gi]
                g[kind] = [x for x in g[kind] if x != e]
                c["histories"][gi] = restrict_history(c["histories"][gi], g)
                attempt(c, f"drop-edge-{gi}-{kind}-{e}")
    # 9. argument sets
    for r, rnd in enumerate(cur["rounds"]):
        for cn in sorted(rnd["scripts"]):
            for k, spec in enumerate(rnd["scripts"][cn]):
                a = spec.get("a") or {}
                for key in ("S", "T", "I"):
                    for x in list(a.get(key, [])):
                        c = copy.deepcopy(cur)
                        aa = c["rounds"][r]["scripts"][cn][k]["a"]
                        aa[key] = [y for y in aa[key] if y != x]
                        for ck in ("c", "cS", "cT"):
                            if aa.get(ck) == "single":
                                aa[ck] = "list"
                        attempt(c, f"shrink-arg-{r}.{cn}.{k}.{key}")
    info["runs"] = budget.used
    return cur, info
