"""Self-tests of the simulator itself.

determinism: the same (VERIF_SEED, scenario, worker) must give a byte-identical event-log digest
  - when executed twice,
  - with a different number of worker processes,
  - with the parent interpreter under a different PYTHONHASHSEED.
sensitivity (thorough only): every mutant under selftest/mutants/ must make the quick tier of its
  property report a violation (run against a scratch copy of /repo/src, removed afterwards).
"""

from __future__ import annotations

import json
import os
import py_compile
import shutil
import subprocess
import sys
import tempfile
import time

import driver

SIZES = {"C14": 12, "C02": 10, "C04": 12, "C11": 60}
SIZES_THOROUGH = {"C14": 120, "C02": 80, "C04": 120, "C11": 1500}


def _collect_child(prop: str, per_group: int, nworkers: int, seed: int, parent_hashseed: str) -> dict:
    env = dict(os.environ)
    env["PYTHONHASHSEED"] = parent_hashseed
    env["VERIF_SEED"] = str(seed)
    p = subprocess.run(
        [driver.PY, os.path.join(driver.HERE, "main.py"), "_collect", "--tier", "quick", "--collect",
         json.dumps({"prop": prop, "per_group": per_group, "nworkers": nworkers})],
        env=env, capture_output=True, text=True, timeout=1200,
    )
    if p.returncode != 0:
        raise driver.Harness(f"_collect failed: {p.stdout[-500:]} {p.stderr[-1500:]}")
    return json.loads(p.stdout.strip().splitlines()[-1])


def collect_digests(prop: str, per_group: int, nworkers: int, seed: int, scratch: str) -> dict:
    scen, stats, viols, hs = driver.collect(prop, "quick", seed, scratch, per_group, 1, nworkers, 600)
    out = {}
    for s, byw in scen.items():
        for w, d in byw.items():
            out[f"{s}.{w}"] = [d.get("ed") or d.get("xd"), d.get("io"), d.get("hs")]
    return out


def determinism(quick: bool, scratch: str) -> int:
    bad = 0
    sizes = SIZES if quick else SIZES_THOROUGH
    seeds = [0] if quick else [0, 1, 7]
    for seed in seeds:
        for prop, n in sizes.items():
            a = _collect_child(prop, n, 16, seed, "0")
            b = _collect_child(prop, n, 16, seed, "12345")
            c = _collect_child(prop, n, 4, seed, "random")
            if a != b:
                diff = [k for k in a if a[k] != b.get(k)]
                print(f"SELFTEST-FAIL determinism {prop} seed={seed}: two executions differ at {diff[:5]}")
                bad += 1
            sub = {k: v for k, v in a.items() if k in c}
            if not c or sub != c:
                diff = [k for k in c if c[k] != a.get(k)]
                print(f"SELFTEST-FAIL determinism {prop} seed={seed}: 4-worker run differs from 16-worker run at {diff[:5]}")
                bad += 1
            print(f"selftest determinism {prop} seed={seed}: {len(a)} (scenario,worker) executions x2 identical; "
                  f"{len(c)} identical with 4 workers and another parent hash seed", flush=True)
    return bad


def models(quick: bool) -> int:
    """The reference models against their own definitions: Bayes-ball m-separation vs. path enumeration."""
    import random

    import world
    from models import m_separated, m_separated_bruteforce

    rng = random.Random("selftest-models")
    n = bad = sep = 0
    for _ in range(1500 if quick else 20000):
        g = world.gen_graph(rng, 2, 6, acyclic=True, pb_choices=(0.1, 0.3, 0.5))
        m = world.world_model(g)
        nodes = sorted(m.N)
        a, b = rng.sample(nodes, 2)
        rest = [x for x in nodes if x not in (a, b)]
        cond = rng.sample(rest, rng.randint(0, len(rest)))
        r1, r2, r3 = m_separated(m, a, b, cond), m_separated_bruteforce(m, a, b, cond), m_separated(m, b, a, cond)
        n += 1
        sep += r1
        if r1 != r2 or r1 != r3:
            bad += 1
            print(f"SELFTEST-FAIL models: m_separated {r1}/{r3} vs path enumeration {r2} on {g} {a} {b} {cond}")
    print(f"selftest models: m-separation oracle agrees with path enumeration on {n} random queries ({sep} separated)", flush=True)
    return bad


def sensitivity(scratch: str, only: str | None = None) -> int:
    mdir = os.path.join(driver.VERIF, "selftest", "mutants")
    sdir = os.path.join(driver.VERIF, "seeded")
    bad = 0
    todo: list[tuple[str, str, str]] = []  # (label, property, patch path)
    if os.path.isdir(mdir):
        for name in sorted(os.listdir(mdir)):
            if name.endswith(".diff") and (only is None or only in name):
                todo.append((name, name.split("-")[0], os.path.join(mdir, name)))
    if os.path.isdir(sdir):
        for name in sorted(os.listdir(sdir)):
            mp = os.path.join(sdir, name, "meta.json")
            if os.path.exists(mp) and (only is None or only in name):
                todo.append((name, json.load(open(mp))["property"], os.path.join(sdir, name, "patch.diff")))
    for name, prop, patchfile in todo:
        work = tempfile.mkdtemp(prefix="y0sim-mut-", dir=os.environ.get("TMPDIR") or "/tmp")
        try:
            shutil.copytree("/repo/src", os.path.join(work, "src"), ignore=shutil.ignore_patterns("__pycache__"))
            p = subprocess.run(["patch", "-p1", "-s", "-d", work, "-i", patchfile],
                               capture_output=True, text=True)
            if p.returncode != 0:
                print(f"SELFTEST-FAIL sensitivity {name}: patch does not apply: {p.stdout[-300:]}{p.stderr[-300:]}")
                bad += 1
                continue
            env = dict(os.environ)
            env["Y0SIM_SRC"] = os.path.join(work, "src")
            env["Y0SIM_EVIDENCE_DIR"] = os.path.join(work, "evidence")
            env["Y0SIM_REPLAY_DIR"] = os.path.join(work, "replays")
            t0 = time.time()
            r = subprocess.run([driver.PY, os.path.join(driver.HERE, "main.py"), prop, "--tier", "quick"],
                               env=env, capture_output=True, text=True, timeout=1800)
            lines = [ln for ln in r.stdout.splitlines() if ln.startswith("VIOLATION") or ln.startswith("  signature")]
            if r.returncode == 1 and lines:
                sig = next((ln for ln in lines if "signature" in ln), "")
                print(f"selftest sensitivity {name}: caught in {time.time() - t0:.0f}s {sig.strip()[:160]}", flush=True)
            else:
                print(f"SELFTEST-FAIL sensitivity {name}: quick tier exit={r.returncode}, no violation reported")
                print(r.stdout[-600:], r.stderr[-600:])
                bad += 1
        finally:
            shutil.rmtree(work, ignore_errors=True)
    return bad


def specificity(scratch: str, only: str | None = None) -> int:
    """Behaviour-preserving refactors written by independent agents (benign/*/patch.diff): every listed check
    must stay silent (exit 0, no VIOLATION line) when run against the refactored sources."""
    bdir = os.path.join(driver.VERIF, "benign")
    bad = 0
    if not os.path.isdir(bdir):
        return 0
    for name in sorted(os.listdir(bdir)):
        mp = os.path.join(bdir, name, "meta.json")
        if not os.path.exists(mp) or (only is not None and only not in name):
            continue
        props = sorted(json.load(open(mp))["quick_checks_against_patched_sources"])
        work = tempfile.mkdtemp(prefix="y0sim-ben-", dir=os.environ.get("TMPDIR") or "/tmp")
        try:
            shutil.copytree("/repo/src", os.path.join(work, "src"), ignore=shutil.ignore_patterns("__pycache__"))
            p = subprocess.run(["patch", "-p1", "-s", "-d", work, "-i", os.path.join(bdir, name, "patch.diff")],
                               capture_output=True, text=True)
            if p.returncode != 0:
                print(f"SELFTEST-FAIL specificity {name}: patch does not apply: {p.stdout[-300:]}{p.stderr[-300:]}")
                bad += 1
                continue
            for prop in props:
                env = dict(os.environ)
                env["Y0SIM_SRC"] = os.path.join(work, "src")
                env["Y0SIM_EVIDENCE_DIR"] = os.path.join(work, "evidence")
                env["Y0SIM_REPLAY_DIR"] = os.path.join(work, "replays")
                t0 = time.time()
                r = subprocess.run([driver.PY, os.path.join(driver.HERE, "main.py"), prop, "--tier", "quick"],
                                   env=env, capture_output=True, text=True, timeout=3600)
                if r.returncode == 0 and "VIOLATION" not in r.stdout:
                    print(f"selftest specificity {name}: {prop} silent in {time.time() - t0:.0f}s", flush=True)
                else:
                    print(f"SELFTEST-FAIL specificity {name}: {prop} quick tier exit={r.returncode} on a behaviour-preserving refactor")
                    print(r.stdout[-1500:], r.stderr[-600:])
                    bad += 1
        finally:
            shutil.rmtree(work, ignore_errors=True)
    return bad


def stability(scratch: str) -> int:
    """The unchanged tree under other VERIF_SEED values: every quick check must exit 0 (a generator change that is
    clean for seed 0 can still produce a false alarm for seed 1 -- it has happened, DESIGN.md section 9, A8)."""
    bad = 0
    for seed in (1, 2, 3):
        for prop in ("C14", "C02", "C04", "C11"):
            env = dict(os.environ)
            env["VERIF_SEED"] = str(seed)
            env["Y0SIM_EVIDENCE_DIR"] = os.path.join(scratch, "stab-evidence")
            env["Y0SIM_REPLAY_DIR"] = os.path.join(scratch, "stab-replays")
            t0 = time.time()
            r = subprocess.run([driver.PY, os.path.join(driver.HERE, "main.py"), prop, "--tier", "quick"],
                               env=env, capture_output=True, text=True, timeout=3600)
            if r.returncode == 0 and "VIOLATION" not in r.stdout:
                print(f"selftest stability VERIF_SEED={seed} {prop}: silent in {time.time() - t0:.0f}s", flush=True)
            else:
                print(f"SELFTEST-FAIL stability VERIF_SEED={seed} {prop}: exit={r.returncode} on the unchanged tree")
                print(r.stdout[-1500:], r.stderr[-600:])
                bad += 1
    return bad


def run(quick: bool, scratch: str) -> int:
    t0 = time.time()
    only = os.environ.get("Y0SIM_ONLY_MUTANT")
    if only:
        bad = sensitivity(scratch, only) + specificity(scratch, only)
        print(f"selftest sensitivity/specificity (only {only}): {'OK' if not bad else 'FAILURES'}")
        return 0 if not bad else 2
    for fn in sorted(os.listdir(driver.HERE)):
        if fn.endswith(".py"):
            py_compile.compile(os.path.join(driver.HERE, fn), cfile=os.path.join(scratch, fn + "c"), doraise=True)
    bad = models(quick)
    bad += determinism(quick, scratch)
    if not quick:
        bad += stability(scratch)
        bad += sensitivity(scratch)
        bad += specificity(scratch)
    print(f"selftest {'quick' if quick else 'thorough'}: {'OK' if not bad else str(bad) + ' FAILURES'} in {time.time() - t0:.0f}s")
    return 0 if not bad else 2
