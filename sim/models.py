"""Reference models: a three-set mixed graph and a Tian-Pearl identifiability decision procedure.

Nodes are plain strings (the `ser.ser_var` form of the y0 variable).  The model shares
no code with y0 or networkx: closures are fix-points, districts are union-find.
Everything returned is built from sorted lists / frozensets of strings, so it is
independent of the hash seed.
"""

from __future__ import annotations

from dataclasses import dataclass
from typing import Iterable


def _fs(x: Iterable) -> frozenset:
    return frozenset(x)


@dataclass(frozen=True)
class MG:
    """Abstract mixed graph: nodes, directed edges, bidirected edges (as 2-element frozensets)."""

    N: frozenset
    D: frozenset
    B: frozenset

    @staticmethod
    def make(nodes: Iterable[str], directed: Iterable, undirected: Iterable) -> "MG":
        D = _fs((u, v) for u, v in directed)
        B = _fs(_fs((u, v)) for u, v in undirected)
        N = set(nodes)
        for u, v in D:
            N.add(u)
            N.add(v)
        for e in B:
            N.update(e)
        return MG(_fs(N), D, B)

    # ---- serialisation (must match ser.graph_canonical)
    def canonical(self) -> dict:
        n = sorted(self.N)
        return {
            "N": n,
            "Nd": n,
            "Nu": n,
            "D": sorted([u, v] for u, v in self.D),
            "B": sorted(sorted(e) if len(e) == 2 else sorted(e) * 2 for e in self.B),
        }

    # ---- definitions from the property statement
    def subgraph(self, S: Iterable[str]) -> "MG":
        S = _fs(S)
        return MG(
            S,
            _fs((u, v) for u, v in self.D if u in S and v in S),
            _fs(e for e in self.B if e <= S),
        )

    def remove_in_edges(self, S: Iterable[str]) -> "MG":
        S = _fs(S)
        return MG(
            self.N,
            _fs((u, v) for u, v in self.D if v not in S),
            _fs(e for e in self.B if not (e & S)),
        )

    def remove_out_edges(self, S: Iterable[str]) -> "MG":
        S = _fs(S)
        return MG(self.N, _fs((u, v) for u, v in self.D if u not in S), self.B)

    def remove_nodes_from(self, S: Iterable[str]) -> "MG":
        S = _fs(S)
        return MG(
            self.N - S,
            _fs((u, v) for u, v in self.D if u not in S and v not in S),
            _fs(e for e in self.B if not (e & S)),
        )

    def _adj(self) -> tuple[dict, dict]:
        """(parents, children) maps, built once per model (plain dict look-ups keep 1 000-node chains cheap)."""
        adj = self.__dict__.get("_adj_cache")
        if adj is None:
            pa: dict = {n: set() for n in self.N}
            ch: dict = {n: set() for n in self.N}
            for u, v in self.D:
                pa.setdefault(v, set()).add(u)
                ch.setdefault(u, set()).add(v)
            adj = (pa, ch)
            object.__setattr__(self, "_adj_cache", adj)
        return adj

    def parents(self, n: str) -> frozenset:
        return _fs(self._adj()[0].get(n, ()))

    def children(self, n: str) -> frozenset:
        return _fs(self._adj()[1].get(n, ()))

    def _closure(self, S: Iterable[str], nbr: dict) -> frozenset:
        cur = set(S)
        todo = list(cur)
        while todo:  # work-list fix-point: reflexive-transitive closure over directed edges
            x = todo.pop()
            for y in nbr.get(x, ()):
                if y not in cur:
                    cur.add(y)
                    todo.append(y)
        return _fs(cur)

    def ancestors_inclusive(self, S: Iterable[str]) -> frozenset:
        return self._closure(S, self._adj()[0])

    def descendants_inclusive(self, S: Iterable[str]) -> frozenset:
        return self._closure(S, self._adj()[1])

    def districts(self) -> frozenset:
        parent = {n: n for n in self.N}

        def find(x: str) -> str:
            while parent[x] != x:
                parent[x] = parent[parent[x]]
                x = parent[x]
            return x

        for e in self.B:
            a = sorted(e)
            if len(a) == 2:
                ra, rb = find(a[0]), find(a[1])
                if ra != rb:
                    parent[ra] = rb
        groups: dict[str, set] = {}
        for n in self.N:
            groups.setdefault(find(n), set()).add(n)
        return _fs(_fs(g) for g in groups.values())

    def district_of(self, n: str) -> frozenset:
        for d in self.districts():
            if n in d:
                return d
        raise KeyError(n)

    def markov_pillow(self, S: Iterable[str]) -> frozenset:
        S = _fs(S)
        out: set = set()
        for n in S:
            out |= self.parents(n)
        return _fs(out - S)

    def markov_blanket(self, S: Iterable[str]) -> frozenset:
        S = _fs(S)
        out: set = set()
        for n in S:
            out |= self.parents(n)
            for c in self.children(n):
                out.add(c)
                out |= self.parents(c)
        return _fs(out - S)

    def moralize(self) -> "MG":
        extra = set()
        for n in self.N:
            ps = sorted(self.parents(n))
            for i in range(len(ps)):
                for j in range(i + 1, len(ps)):
                    extra.add(_fs((ps[i], ps[j])))
        return MG(self.N, self.D, self.B | _fs(extra))

    def disorient(self) -> dict:
        E = {_fs((u, v)) for u, v in self.D} | set(self.B)
        return {
            "N": sorted(self.N),
            "E": sorted(sorted(e) if len(e) == 2 else sorted(e) * 2 for e in E),
            "directed": False,
        }

    def is_acyclic(self) -> bool:
        indeg = {n: 0 for n in self.N}
        for _, v in self.D:
            indeg[v] += 1
        todo = sorted(n for n, k in indeg.items() if k == 0)
        seen = 0
        while todo:
            n = todo.pop()
            seen += 1
            for c in sorted(self.children(n)):
                indeg[c] -= 1
                if indeg[c] == 0:
                    todo.append(c)
        return seen == len(self.N)

    def is_linear_extension(self, order: list) -> bool:
        if sorted(order) != sorted(self.N):
            return False
        pos = {n: i for i, n in enumerate(order)}
        return all(pos[u] < pos[v] for u, v in self.D)

    def nodes_in_directed_paths(self, S: Iterable[str], T: Iterable[str]) -> frozenset:
        """Nodes on some simple directed path (length >= 1) from a source to a target."""
        S, T = _fs(S), _fs(T)
        out: set = set()
        succ = {n: sorted(self.children(n)) for n in self.N}

        def dfs(path: list, onpath: set, t: str) -> None:
            last = path[-1]
            for c in succ[last]:
                if c == t:
                    out.update(path)
                    out.add(t)
                elif c not in onpath:
                    path.append(c)
                    onpath.add(c)
                    dfs(path, onpath, t)
                    path.pop()
                    onpath.discard(c)

        for s in sorted(S):
            for t in sorted(T):
                if s == t:
                    continue
                dfs([s], {s}, t)
        return _fs(out)

    def nodes_in_directed_paths_dag(self, S: Iterable[str], T: Iterable[str]) -> frozenset:
        """DAG version: forward-reachable from a source and backward-reachable from a target, per pair."""
        S, T = _fs(S), _fs(T)
        out: set = set()
        for s in S:
            ds = self.descendants_inclusive([s])
            for t in T:
                if s == t or t not in ds:
                    continue
                at = self.ancestors_inclusive([t])
                out |= ds & at
        return _fs(out)

    def intervene(self, ints: Iterable[tuple]) -> "MG":
        """`ints` is a list of (name, star) with star in {True, False}."""
        ints = sorted(set((n, bool(s)) for n, s in ints))
        if not ints:
            # y0: Variable.intervene(()) -> CounterfactualVariable with no interventions raises
            raise ValueError("empty intervention set")
        touched = {n for n, _ in ints}
        suffix = "@(" + ",".join(sorted(("+" if s else "-") + n for n, s in ints)) + ")"

        def rel(n: str) -> str:
            return n + suffix

        return MG(
            _fs(rel(n) for n in self.N),
            _fs((rel(u), rel(v)) for u, v in self.D if v not in touched),
            _fs(_fs(rel(x) for x in e) for e in self.B if not (e & touched)),
        )


# --------------------------------------------------------------------------- identifiability


def identifiable(g: MG, X: Iterable[str], Y: Iterable[str]) -> bool:
    """Tian & Pearl's decision procedure for P(y | do(x)) in an ADMG (complete: Huang & Valtorta 2006).

    D = An(Y) in G[V \\ X]; P(y|do(x)) is identifiable iff every c-component D_j of G[D]
    is identifiable from the c-component T of G that contains it, where
    identify(C, T): A = An(C) in G[T]; A == C -> yes; A == T -> no; else recurse on the
    c-component of G[A] that contains C.
    """
    X, Y = _fs(X), _fs(Y)
    gx = g.subgraph(g.N - X)
    D = gx.ancestors_inclusive(Y)
    gd = g.subgraph(D)
    for Dj in gd.districts():
        anchor = sorted(Dj)[0]
        T = g.district_of(anchor)
        if not _identify_c(g, Dj, T):
            return False
    return True


def _identify_c(g: MG, C: frozenset, T: frozenset) -> bool:
    while True:
        gt = g.subgraph(T)
        A = gt.ancestors_inclusive(C)
        if A == C:
            return True
        if A == T:
            return False
        ga = g.subgraph(A)
        T = ga.district_of(sorted(C)[0])
        if not C <= T:  # cannot happen: C is bidirected-connected inside A
            raise AssertionError("model invariant broken")


# --------------------------------------------------------------------------- m-separation (C04)


def _latent_dag(g: MG) -> tuple[dict, dict]:
    """Parents / children maps of the DAG in which every bidirected edge is an unobserved common parent."""
    pa: dict = {n: set() for n in g.N}
    ch: dict = {n: set() for n in g.N}
    for u, v in g.D:
        pa[v].add(u)
        ch[u].add(v)
    for i, e in enumerate(sorted(g.B, key=sorted)):
        xs = sorted(e)
        if len(xs) != 2:
            continue
        lat = ("latent", i)
        pa[lat] = set()
        ch[lat] = set(xs)
        for x in xs:
            pa[x].add(lat)
    return pa, ch


def m_separated(g: MG, a: str, b: str, C: Iterable[str]) -> bool:
    """True iff a and b are d-separated given C in the latent-variable DAG of the ADMG g.

    'Reachable' procedure of Koller & Friedman (Alg. 3.1, Bayes-ball): a search over
    (node, direction of arrival) pairs.  Shares nothing with y0's ancestral-moral-graph test.
    """
    Z = _fs(C)
    pa, ch = _latent_dag(g)
    # ancestors of Z (inclusive) in the latent DAG
    anc = set(Z)
    todo = list(Z)
    while todo:
        n = todo.pop()
        for p in pa[n]:
            if p not in anc:
                anc.add(p)
                todo.append(p)
    visited: set = set()
    frontier = [(a, "up")]
    while frontier:
        y, d = frontier.pop()
        if (y, d) in visited:
            continue
        visited.add((y, d))
        if y not in Z and y == b:
            return False
        if d == "up" and y not in Z:
            for p in pa[y]:
                frontier.append((p, "up"))
            for c in ch[y]:
                frontier.append((c, "down"))
        elif d == "down":
            if y not in Z:
                for c in ch[y]:
                    frontier.append((c, "down"))
            if y in anc:
                for p in pa[y]:
                    frontier.append((p, "up"))
    return True


def m_separated_bruteforce(g: MG, a: str, b: str, C: Iterable[str]) -> bool:
    """Definition by enumeration of all simple paths of the latent DAG (validates m_separated in the self-test)."""
    Z = _fs(C)
    pa, ch = _latent_dag(g)
    desc_has_z: dict = {}

    def has_z_desc(n) -> bool:  # n or a descendant of n is in Z
        if n not in desc_has_z:
            seen, todo, hit = {n}, [n], False
            while todo:
                x = todo.pop()
                if x in Z:
                    hit = True
                    break
                for c in ch[x]:
                    if c not in seen:
                        seen.add(c)
                        todo.append(c)
            desc_has_z[n] = hit
        return desc_has_z[n]

    nbrs = {n: sorted(((p, "in") for p in pa[n]), key=str) + sorted(((c, "out") for c in ch[n]), key=str) for n in pa}
    # a step (x -> y, kind): kind 'in' means the edge points into x (y is a parent of x), 'out' means x -> y

    def walk(path: list, arrows: list) -> bool:
        """arrows[i] is True iff edge i (between path[i], path[i+1]) points INTO path[i+1]."""
        x = path[-1]
        if x == b:
            return True  # an active path was found
        for y, kind in nbrs[x]:
            if y in path:
                continue
            into_y = kind == "out"
            # check that the middle node x (if any) does not block
            if len(path) >= 2:
                into_x_prev = arrows[-1]
                into_x_next = kind == "in"  # the edge y -> x points into x
                collider = into_x_prev and into_x_next
                if collider:
                    if not has_z_desc(x):
                        continue
                elif x in Z:
                    continue
            if walk(path + [y], arrows + [into_y]):
                return True
        return False

    return not walk([a], [])
