"""Seeded case generators for the graph-based properties (C14, C02).

`rng_s` (scenario PRNG) is identical in every worker, so the abstract scenario is the
same everywhere; `rng_w` (worker PRNG) draws the construction histories, so each worker
realises the same abstract graphs through a different insertion order / constructor.
The scheduler seeds include the worker id too, so each worker explores different
interleavings of the same scripts.
"""

from __future__ import annotations

import json
import random
from typing import Any

import world
from graphsim import GRAPH_VALUED, SURGERY_OPS, gen_dsep_op, gen_surgery_op, model_op, op_valid
from models import MG, m_separated


def _wchoice(rng: random.Random, pairs: list[tuple[Any, float]]) -> Any:
    r = rng.random() * sum(w for _, w in pairs)
    for v, w in pairs:
        r -= w
        if r <= 0:
            return v
    return pairs[-1][0]


def _pop_inter(rng: random.Random, name: str, tier: str) -> dict:
    pol = _wchoice(rng, [("uniform", 0.4), ("pct", 0.2), ("hot", 0.4)])
    pop: dict[str, Any] = {"name": name, "policy": pol}
    if pol == "uniform":
        pop["p"] = rng.choice((0.003, 0.02, 0.1, 0.3))
    elif pol == "hot":
        pop["p"] = rng.choice((0.003, 0.02))
    else:
        pop["pct_d"] = rng.randint(1, 4)
    pop["trace_nx"] = tier == "thorough" and rng.random() < 0.3
    return pop


def _order_pops(rng: random.Random, pops: list) -> list:
    """Usually sequential baseline first; in 30 % of the scenarios an interleaved population runs *cold*,
    before anything else has touched the scenario's objects and values in this interpreter (a memo filled by
    the sequential pass would otherwise hide what a pre-empted or aborted first computation leaves behind).
    A population that runs before the baseline is judged against the reference model only."""
    if len(pops) > 1 and rng.random() < 0.3:
        i = rng.randrange(1, len(pops))
        return [pops[i]] + pops[:i] + pops[i + 1:]
    return pops


def _gen_evolve(rng: random.Random, g: dict, cur: MG) -> tuple[list[list], MG]:
    """1-3 legal mutations of a shared graph through its public builder API (keeps acyclic worlds acyclic)."""
    steps: list[list] = []
    N, D, B = set(cur.N), set(cur.D), set(cur.B)
    order = g.get("order")
    for _ in range(rng.randint(1, 3)):
        kind = rng.choice(("n", "d", "b", "b", "d"))
        nodes = sorted(N)
        if kind == "n" or len(nodes) < 2:
            nm = world.gen_names(rng, 1)[0]
            while nm in N:
                nm = world.gen_names(rng, 1)[0]
            steps.append(["n", nm])
            N.add(nm)
            if order is not None:
                order.insert(rng.randrange(len(order) + 1), nm)
        elif kind == "d":
            u, v = rng.sample(nodes, 2)
            if rng.random() < 0.3:
                # one endpoint is a node the graph has never seen (add_directed_edge must register it everywhere)
                nm = world.gen_names(rng, 1)[0]
                while nm in N:
                    nm = world.gen_names(rng, 1)[0]
                if rng.random() < 0.5:
                    u = nm
                else:
                    v = nm
                N.add(nm)
                if order is not None:
                    order.insert(rng.randrange(len(order) + 1), nm)
            if order is not None:
                if u not in order or v not in order:
                    continue
                if order.index(u) > order.index(v):
                    u, v = v, u
            steps.append(["d", u, v])
            D.add((u, v))
        else:
            u, v = rng.sample(nodes, 2)
            fresh_ends = _wchoice(rng, [(0, 0.65), (1, 0.25), (2, 0.10)])
            for k in range(fresh_ends):
                # one or BOTH end points are nodes the graph has never seen (the edge is their first appearance)
                nm = world.gen_names(rng, 1)[0]
                while nm in N:
                    nm = world.gen_names(rng, 1)[0]
                if k == 0:
                    v = nm
                else:
                    u = nm
                N.add(nm)
                if order is not None:
                    order.insert(rng.randrange(len(order) + 1), nm)
            steps.append(["b", u, v])
            B.add(frozenset((u, v)))
    # a node that has just been introduced is usually put to use right away: connect it to another node, so that
    # questions asked afterwards can depend on it (a memo that missed its arrival then gives a stale answer)
    fresh = [x for x in sorted(N) if x not in cur.N]
    if fresh and len(N) > 2 and rng.random() < 0.6:
        u = rng.choice(fresh)
        v = rng.choice([x for x in sorted(N) if x != u])
        if rng.random() < 0.5:
            steps.append(["b", u, v])
            B.add(frozenset((u, v)))
        else:
            if order is not None and u in order and v in order and order.index(u) > order.index(v):
                u, v = v, u
            steps.append(["d", u, v])
            D.add((u, v))
    return steps, MG(frozenset(N), frozenset(D), frozenset(B))


def _order_for(rng: random.Random, m: MG) -> list[str]:
    """A linear extension of the directed part of m (keeps evolve steps of an acyclic graph acyclic)."""
    from graphsim import _rand_linear_extension

    return _rand_linear_extension(rng, m)


def gen_case_c14(seed: int, s: int, w: int, tier: str) -> dict:
    if _is_deep(s):
        return gen_deep_c14(seed, s, w, tier)
    rng = random.Random(f"{seed}:C14:{s}")
    ngraphs = _wchoice(rng, [(1, 0.6), (2, 0.3), (3, 0.1)])
    graphs = [world.gen_graph(rng, 1, 7, acyclic=rng.random() < 0.8) for _ in range(ngraphs)]
    cur = [world.world_model(g) for g in graphs]
    nrounds = _wchoice(rng, [(1, 0.5), (2, 0.3), (3, 0.2)])
    K = rng.randint(2, 4)
    callers = [f"c{i}" for i in range(K)]
    rounds = []
    prev: list[tuple[list, MG]] = []  # graph-valued results of earlier rounds
    asked: list[dict] = []  # questions put to shared graphs in earlier rounds
    for r in range(nrounds):
        scripts: dict[str, list] = {}
        new_prev: list[tuple[list, MG]] = []
        for c in callers:
            script: list[dict] = []
            own: list[tuple[int, MG]] = []
            for k in range(rng.randint(1, 4)):
                x = rng.random()
                if own and x < 0.25:
                    idx, m = own[rng.randrange(len(own))]
                    target = ["r", idx]
                elif prev and x < 0.4:
                    target, m = prev[rng.randrange(len(prev))]
                else:
                    gi = rng.randrange(ngraphs)
                    target, m = ["g", gi], cur[gi]
                spec = None
                if asked and target[0] == "g" and rng.random() < 0.3:
                    # re-ask: exactly the same question as in an earlier round, after the graph was edited
                    old = asked[rng.randrange(len(asked))]
                    if old["t"] == target and op_valid(old, m):
                        spec = json.loads(json.dumps(old))
                if spec is None:
                    spec = gen_surgery_op(rng, target, m)
                if spec is None:
                    continue
                script.append(spec)
                if spec["op"] in GRAPH_VALUED:
                    _, _, rm = model_op(spec, m)
                    if rm is not None:  # None: the outcome of a bad-argument call is not modelled
                        own.append((len(script) - 1, rm))
                        new_prev.append((["p", r, c, len(script) - 1], rm))
            scripts[c] = script
        for gi in range(ngraphs):
            if not graphs[gi]["acyclic"] and len(cur[gi].N) >= 2 and rng.random() < 0.5:
                # closure burst on a cyclic graph: single-source closures of several nodes asked one after the other on
                # the same, unedited object (per-node memos filled while walking strongly connected components)
                c = rng.choice(callers)
                nodes_b = sorted(cur[gi].N)
                for nd in rng.sample(nodes_b, rng.randint(2, len(nodes_b))):
                    scripts[c].append({"op": rng.choice(("ancestors_inclusive", "descendants_inclusive")), "t": ["g", gi],
                                       "a": {"S": [nd], "c": rng.choice(("single", "set", "list"))}})
        rnd: dict[str, Any] = {"scripts": scripts}
        asked += [sp for sc in scripts.values() for sp in sc if sp["t"][0] == "g" and not sp["a"].get("bad")]
        prev += new_prev
        if r < nrounds - 1:
            # the owner of a returned graph goes on editing it: later operations on it must see the edits,
            # nobody else may (memo fields pre-filled while a result was built would show here)
            evr = []
            cand = [i for i, (_, m) in enumerate(prev) if all("@" not in n for n in m.N)]
            rng.shuffle(cand)
            for i in cand[: rng.choice((0, 1, 1, 2))]:
                tgt, m = prev[i]
                pseudo = {"order": _order_for(rng, m) if m.is_acyclic() else None}
                steps, m2 = _gen_evolve(rng, pseudo, m)
                prev[i] = (tgt, m2)
                evr.append([tgt[1:], steps])
            rnd["evolve_results"] = evr
            ev = []
            for gi in range(ngraphs):
                if rng.random() < 0.7:
                    steps, cur[gi] = _gen_evolve(rng, graphs[gi], cur[gi])
                    ev.append([gi, steps])
            rnd["evolve"] = ev
        rounds.append(rnd)
    pops = [{"name": "seq", "policy": "seq"}, _pop_inter(rng, "inter", tier)]
    ab = _pop_inter(rng, "abort", tier)
    ab["n_aborts"] = 2
    pops.append(ab)
    pops = _order_pops(rng, pops)
    rng_w = random.Random(f"{seed}:C14:{s}:w{w}")
    return {
        "prop": "C14",
        "seed": seed,
        "scenario": s,
        "worker": w,
        "graphs": graphs,
        "histories": [world.gen_history(rng_w, g) for g in graphs],
        "rounds": rounds,
        "pops": pops,
    }


SWEEP_EVERY = 3  # every third C02 / C04 scenario id is a sweep scenario
DEEP_EVERY = 97  # about one scenario id in a hundred is a *deep* scenario: a chain of several hundred nodes


def _is_deep(s: int) -> bool:
    return s % DEEP_EVERY == 5


def _deep_graph(rng: random.Random) -> dict:
    return world.gen_chain_graph(rng, rng.choice((300, 700, 1200)))


def _deep_case(prop: str, seed: int, s: int, w: int, g: dict, script: list, queries: list | None = None) -> dict:
    rng_w = random.Random(f"{seed}:{prop}:{s}:w{w}")
    case = {
        "prop": prop, "seed": seed, "scenario": s, "worker": w, "kind": "deep",
        "graphs": [g], "histories": [world.gen_history(rng_w, g)],
        "rounds": [{"scripts": {"c0": script}}],
        "pops": [{"name": "seq", "policy": "seq", "notrace": True}],
    }
    if queries is not None:
        case["queries"] = queries
    return case


def gen_deep_c14(seed: int, s: int, w: int, tier: str) -> dict:
    rng = random.Random(f"{seed}:C14:{s}")
    g = _deep_graph(rng)
    names = g["nodes"]
    n = len(names) - 3
    ends = ["Y", "X", f"K{n - 1}", "K0", f"K{n // 2}", "Zz"]
    script = []
    for op in ("ancestors_inclusive", "descendants_inclusive", "topological_sort", "districts", "subgraph",
               "remove_in_edges", "remove_out_edges", "remove_nodes_from", "get_markov_blanket"):
        a: dict[str, Any] = {}
        if op not in ("topological_sort", "districts"):
            S = rng.sample(ends, rng.randint(1, 3))
            if op == "subgraph" and rng.random() < 0.5:
                S = names[: rng.randint(2, len(names))]
            a = {"S": S, "c": rng.choice(("set", "list", "tuple"))}
        script.append({"op": op, "t": ["g", 0], "a": a})
    return _deep_case("C14", seed, s, w, g, script)


def gen_deep_c02(seed: int, s: int, w: int, tier: str) -> dict:
    """ID on a long chain.  Only queries whose cost is linear in the chain length (the treatment sits at the end of
    the chain); y0's ID is quadratic and worse when line 4 splits a long chain into one sub-problem per node, which
    is slow but not wrong, and no business of this check."""
    rng = random.Random(f"{seed}:C02:{s}")
    g = world.gen_chain_graph(rng, rng.choice((300, 700, 1000)), shortcuts=False)
    n = len(g["nodes"]) - 3
    qs = [{"g": 0, "X": ["X"], "Y": ["Y"]}, {"g": 0, "X": [f"K{n - 1}"], "Y": ["Y"]}, {"g": 0, "X": [f"K{n - 1}"], "Y": ["X"]}]
    rng.shuffle(qs)
    qs = qs[: rng.randint(1, 3)]
    script = [{"op": rng.choice(("identify_outcomes", "identify", "identify_fresh")), "q": i, "form": "sets"}
              for i in range(len(qs))]
    return _deep_case("C02", seed, s, w, g, script, qs)


def gen_deep_c04(seed: int, s: int, w: int, tier: str) -> dict:
    rng = random.Random(f"{seed}:C04:{s}")
    g = _deep_graph(rng)
    n = len(g["nodes"]) - 3
    script = []
    for a, b, C in (("K0", "Y", [f"K{n // 2}"]), ("K0", "Y", []), ("K0", "Zz", ["Y"]), (f"K{n // 3}", "Y", ["X"]),
                    ("X", "K0", [f"K{n - 1}", "Y"])):
        script.append({"op": "are_d_separated", "t": ["g", 0],
                       "a": {"a": a, "b": b, "C": C, "c": rng.choice(("set", "list", "tuple")), "sym": rng.random() < 0.5}})
    return _deep_case("C04", seed, s, w, g, script)



def gen_sweep_c02(seed: int, s: int, w: int, tier: str) -> dict:
    """One caller, no pre-emption: many (X, Y) queries on one graph, each worker under its own hash seed and
    construction history.  Buys volume for the reference-model and cross-interpreter oracles (rare structures:
    several treatments, bow arcs, treatments screened off by other treatments)."""
    rng = random.Random(f"{seed}:C02:{s}")
    g = world.gen_graph(rng, 3, 7, acyclic=True, pb_choices=(0.2, 0.3, 0.5, 0.7), pd_choices=(0.3, 0.5, 0.8), p_iso=0.05)
    m = world.world_model(g)
    nodes = sorted(m.N)
    queries, script = [], []
    seen = set()
    for _ in range(70):
        nx_ = min(_wchoice(rng, [(1, 0.3), (2, 0.4), (3, 0.3)]), len(nodes) - 1)
        X = sorted(rng.sample(nodes, nx_))
        rest = [n for n in nodes if n not in X]
        Y = sorted(rng.sample(rest, min(_wchoice(rng, [(1, 0.6), (2, 0.3), (3, 0.1)]), len(rest))))
        if (tuple(X), tuple(Y)) in seen:
            continue
        seen.add((tuple(X), tuple(Y)))
        queries.append({"g": 0, "X": X, "Y": Y})
        script.append({"op": _wchoice(rng, [("identify_outcomes", 0.6), ("identify", 0.2), ("identify_fresh", 0.2)]),
                       "q": len(queries) - 1, "form": "sets"})
    rng_w = random.Random(f"{seed}:C02:{s}:w{w}")
    return {
        "prop": "C02", "seed": seed, "scenario": s, "worker": w, "kind": "sweep",
        "graphs": [g], "histories": [world.gen_history(rng_w, g)], "queries": queries,
        "rounds": [{"scripts": {"c0": script}}],
        "pops": [{"name": "seq", "policy": "seq", "notrace": True}],
    }


def gen_case_c02(seed: int, s: int, w: int, tier: str) -> dict:
    if _is_deep(s):
        return gen_deep_c02(seed, s, w, tier)
    if s % SWEEP_EVERY == SWEEP_EVERY - 1:
        return gen_sweep_c02(seed, s, w, tier)
    rng = random.Random(f"{seed}:C02:{s}")
    ngraphs = _wchoice(rng, [(1, 0.7), (2, 0.3)])
    graphs = [world.gen_graph(rng, 2, 7, acyclic=True, pb_choices=(0.1, 0.3, 0.5, 0.7), pd_choices=(0.3, 0.5, 0.8),
                               p_iso=0.08) for _ in range(ngraphs)]
    cur = [world.world_model(g) for g in graphs]
    queries = []
    for _ in range(rng.randint(1, 3)):
        gi = rng.randrange(ngraphs)
        nodes = sorted(cur[gi].N)
        nx_ = _wchoice(rng, [(1, 0.6), (2, 0.3), (3, 0.1)])
        nx_ = min(nx_, len(nodes) - 1)
        X = rng.sample(nodes, nx_)
        rest = [n for n in nodes if n not in X]
        ny = min(_wchoice(rng, [(1, 0.6), (2, 0.3), (3, 0.1)]), len(rest))
        Y = rng.sample(rest, ny)
        queries.append({"g": gi, "X": X, "Y": Y})
    K = rng.randint(2, 4)
    nrounds = _wchoice(rng, [(1, 0.55), (2, 0.3), (3, 0.15)])
    rounds = []
    for r in range(nrounds):
        scripts: dict[str, list] = {}
        for i in range(K):
            script = []
            for k in range(rng.randint(1, 3)):
                if rng.random() < 0.7:
                    qi = rng.randrange(len(queries))
                    op = _wchoice(rng, [("identify_outcomes", 0.5), ("identify", 0.3), ("identify_fresh", 0.2)])
                    spec: dict[str, Any] = {"op": op, "q": qi}
                    if op == "identify_outcomes":
                        spec["form"] = rng.choice(("sets", "sets", "single-t", "single-o"))
                    script.append(spec)
                else:
                    gi = queries[rng.randrange(len(queries))]["g"]
                    sp = gen_surgery_op(rng, ["g", gi], cur[gi], ops=tuple(o for o in SURGERY_OPS if o != "intervene"))
                    if sp is not None:
                        script.append(sp)
            scripts[f"c{i}"] = script
        rnd: dict[str, Any] = {"scripts": scripts}
        if r < nrounds - 1:
            # the caller goes on editing its graph between rounds (at quiescence): Identification objects
            # built earlier must keep answering for the graph they were built from
            ev = []
            for gi in range(ngraphs):
                if rng.random() < 0.7:
                    steps, cur[gi] = _gen_evolve(rng, graphs[gi], cur[gi])
                    ev.append([gi, steps])
            rnd["evolve"] = ev
        rounds.append(rnd)
    pops = [{"name": "seq", "policy": "seq"}, _pop_inter(rng, "inter", tier)]
    if rng.random() < 0.5:
        # interleaved + aborts: the aborted call has no outcome to judge; every other call in the population still
        # must give its verdict, and whatever the interrupted computation left behind must not change it
        ab = _pop_inter(rng, "abort", tier)
        ab["n_aborts"] = 2
        pops.append(ab)
    pops = _order_pops(rng, pops)
    rng_w = random.Random(f"{seed}:C02:{s}:w{w}")
    return {
        "prop": "C02",
        "seed": seed,
        "scenario": s,
        "worker": w,
        "graphs": graphs,
        "histories": [world.gen_history(rng_w, g) for g in graphs],
        "queries": queries,
        "rounds": rounds,
        "pops": pops,
    }


def gen_sweep_c04(seed: int, s: int, w: int, tier: str) -> dict:
    """One caller, no pre-emption: many (a, b | C) queries on one graph under this worker's hash seed and history."""
    rng = random.Random(f"{seed}:C04:{s}")
    g = world.gen_graph(rng, 3, 8, acyclic=True, pb_choices=(0.15, 0.3, 0.5), pd_choices=(0.1, 0.2, 0.4), p_iso=0.05)
    m = world.world_model(g)
    script = []
    for _ in range(60):
        sp = gen_dsep_op(rng, ["g", 0], m)
        if sp is not None:
            script.append(sp)
    rng_w = random.Random(f"{seed}:C04:{s}:w{w}")
    return {
        "prop": "C04", "seed": seed, "scenario": s, "worker": w, "kind": "sweep",
        "graphs": [g], "histories": [world.gen_history(rng_w, g)],
        "rounds": [{"scripts": {"c0": script}}],
        "pops": [{"name": "seq", "policy": "seq", "notrace": True}],
    }


def _targeted_edit_c04(rng: random.Random, g: dict, cur: MG, asked: list[dict]):
    """An edit *between existing nodes inside the ancestral set* of a question that has already been asked:
    the question's ancestral set stays the same, its answer (preferably) does not, and it is asked again after
    the edit -- anything remembered per ancestral set, per district or per node from the first asking is stale.
    Returns (step, new model, question) or None."""
    asked = [q for q in asked if op_valid(q, cur)]
    if not asked:
        return None
    order = g.get("order")
    q = asked[rng.randrange(len(asked))]
    a = q["a"]
    K = sorted(cur.ancestors_inclusive([a["a"], a["b"], *a["C"]]))
    if len(K) < 2:
        return None
    before = m_separated(cur, a["a"], a["b"], a["C"])
    fallback = None
    for _ in range(8):
        u, v = rng.sample(K, 2)
        kind = rng.choice(("d", "d", "b"))
        if kind == "d":
            if order is not None:
                if u not in order or v not in order:
                    continue
                if order.index(u) > order.index(v):
                    u, v = v, u
            elif u in cur.descendants_inclusive([v]):
                continue
            if (u, v) in cur.D:
                continue
            m2 = MG(cur.N, cur.D | {(u, v)}, cur.B)
        else:
            if frozenset((u, v)) in cur.B:
                continue
            m2 = MG(cur.N, cur.D, cur.B | {frozenset((u, v))})
        if not m2.is_acyclic():
            continue
        cand = ([kind, u, v], m2, q)
        if m_separated(m2, a["a"], a["b"], a["C"]) != before:
            return cand
        fallback = fallback or cand
    return fallback


def gen_case_c04(seed: int, s: int, w: int, tier: str) -> dict:
    """Separation queries by 2-4 callers on shared ADMGs that keep being edited between rounds."""
    if _is_deep(s):
        return gen_deep_c04(seed, s, w, tier)
    if s % SWEEP_EVERY == SWEEP_EVERY - 1:
        return gen_sweep_c04(seed, s, w, tier)
    rng = random.Random(f"{seed}:C04:{s}")
    ngraphs = _wchoice(rng, [(1, 0.7), (2, 0.3)])
    graphs = [world.gen_graph(rng, 2, 7, acyclic=True, pb_choices=(0.1, 0.3, 0.5), pd_choices=(0.15, 0.3, 0.5),
                               p_iso=0.1) for _ in range(ngraphs)]
    cur = [world.world_model(g) for g in graphs]
    K = rng.randint(2, 4)
    nrounds = _wchoice(rng, [(1, 0.5), (2, 0.3), (3, 0.2)])
    read_only = tuple(o for o in SURGERY_OPS if o != "intervene")
    rounds = []
    asked4: list[dict] = []
    recent: dict[int, list] = {}  # nodes that the last edit of graph gi introduced
    reask: list[dict] = []
    for r in range(nrounds):
        scripts: dict[str, list] = {}
        for i in range(K):
            script = []
            for k in range(rng.randint(1, 4)):
                gi = rng.randrange(ngraphs)
                if asked4 and rng.random() < 0.3:
                    old = asked4[rng.randrange(len(asked4))]
                    sp = json.loads(json.dumps(old)) if op_valid(old, cur[old["t"][1]]) else None
                elif rng.random() < 0.8:
                    sp = gen_dsep_op(rng, ["g", gi], cur[gi], focus=recent.get(gi))
                else:
                    sp = gen_surgery_op(rng, ["g", gi], cur[gi], ops=read_only)
                if sp is not None:
                    script.append(sp)
            scripts[f"c{i}"] = script
        # questions whose answer the last edit was aimed at are asked again, first thing, by some caller
        for q in reask:
            if op_valid(q, cur[q["t"][1]]):
                scripts[f"c{rng.randrange(K)}"].insert(0, json.loads(json.dumps(q)))
        reask = []
        asked4 += [sp for sc in scripts.values() for sp in sc if sp["op"] == "are_d_separated" and not sp["a"].get("bad")]
        rnd: dict[str, Any] = {"scripts": scripts}
        if r < nrounds - 1:
            ev = []
            for gi in range(ngraphs):
                if rng.random() < 0.7:
                    before = cur[gi].N
                    tq = None
                    if rng.random() < 0.35:
                        # the targeted edit is the ONLY edit of this round: no other builder call comes between the
                        # first asking and the edit (another add_* call may happen to drop what was remembered)
                        tq = _targeted_edit_c04(rng, graphs[gi], cur[gi], [q for q in asked4 if q["t"][1] == gi])
                    if tq is not None:
                        step, cur[gi], q = tq
                        steps = [step]
                        reask.append(q)
                        recent[gi] = []
                    else:
                        steps, cur[gi] = _gen_evolve(rng, graphs[gi], cur[gi])
                        recent[gi] = sorted(cur[gi].N - before)
                        if rng.random() < 0.5:
                            tq = _targeted_edit_c04(rng, graphs[gi], cur[gi], [q for q in asked4 if q["t"][1] == gi])
                            if tq is not None:
                                step, cur[gi], q = tq
                                steps.append(step)
                                reask.append(q)
                    ev.append([gi, steps])
            rnd["evolve"] = ev
        rounds.append(rnd)
    pops = [{"name": "seq", "policy": "seq"}, _pop_inter(rng, "inter", tier)]
    ab = _pop_inter(rng, "abort", tier)
    ab["n_aborts"] = 2
    pops.append(ab)
    pops = _order_pops(rng, pops)
    rng_w = random.Random(f"{seed}:C04:{s}:w{w}")
    return {
        "prop": "C04",
        "seed": seed,
        "scenario": s,
        "worker": w,
        "graphs": graphs,
        "histories": [world.gen_history(rng_w, g) for g in graphs],
        "rounds": rounds,
        "pops": pops,
    }


GENERATORS = {"C14": gen_case_c14, "C02": gen_case_c02, "C04": gen_case_c04}
