"""Entry point (kept tiny so that no module is loaded twice): see driver.py."""

import os
import sys

sys.path.insert(0, os.path.dirname(os.path.abspath(__file__)))

import driver  # noqa: E402

if __name__ == "__main__":
    sys.exit(driver.main())
