"""Cross-worker ("pair") violations: the same abstract case gave different results under two hash seeds / histories.

The two executions live in different interpreters, so replay and minimisation drive two
worker processes (each started with its own PYTHONHASHSEED).
"""

from __future__ import annotations

import hashlib
import json
import os
import re
import subprocess
from typing import Any

import driver as M


class Server:
    """A persistent worker interpreter with a fixed hash seed that evaluates cases sent over a pipe."""

    def __init__(self, hashseed: int) -> None:
        env = dict(os.environ)
        env["PYTHONHASHSEED"] = str(hashseed)
        env["PYTHONDONTWRITEBYTECODE"] = "1"
        if os.environ.get("Y0SIM_SRC"):
            env["PYTHONPATH"] = os.environ["Y0SIM_SRC"]
        self.p = subprocess.Popen(
            [M.PY, M.WORKER, json.dumps({"mode": "server", "hashseed": hashseed, "out": os.devnull, "hard_timeout": 900})],
            env=env, stdin=subprocess.PIPE, stdout=subprocess.PIPE, stderr=subprocess.DEVNULL, text=True,
        )

    def eval(self, case: dict) -> dict:
        self.p.stdin.write(json.dumps(case) + "\n")
        self.p.stdin.flush()
        line = self.p.stdout.readline()
        if not line:
            raise M.Harness("pair server died")
        return json.loads(line)

    def close(self) -> None:
        try:
            self.p.stdin.close()
            self.p.wait(5)
        except Exception:  # noqa: BLE001
            self.p.kill()


def _tokens(s: str) -> list[str]:
    return sorted(re.findall(r"[A-Za-z0-9_+\-]+|[^\sA-Za-z0-9_+\-]", s))


def classify(prop: str, key: str, a: Any, b: Any, case: dict | None = None) -> str:
    if prop == "C11":
        if key == "str":
            if isinstance(a, str) and isinstance(b, str) and _tokens(a) == _tokens(b):
                return "C11/O4/str/token-order-differs-between-hash-seeds"
            return "C11/O4/str/content-differs-between-hash-seeds"
        if key == "obj":
            return "C11/O3/object/canonical-object-differs-between-hash-seeds"
        return "C11/O5/canonical_expr_equal/verdict-differs-between-hash-seeds"
    op = "result"
    if case is not None:
        try:
            r, c, k = key.split(".")
            op = case["rounds"][int(r)]["scripts"][c][int(k)]["op"]
        except Exception:  # noqa: BLE001
            pass
    what = "verdict" if prop in ("C02", "C04") else "result"
    return f"{prop}/O5/{op}/{what}-differs-between-hash-seeds-or-histories"


def regen(prop: str, seed: int, tier: str, s: int, wid: int, hashseed: int, scratch: str) -> dict:
    a = {"mode": "regen", "prop": prop, "seed": seed, "tier": tier, "s": s, "wid": wid, "hashseed": hashseed,
         "out": os.path.join(scratch, f"regen-{s}-{wid}.out"), "hard_timeout": 300}
    return M.run_one(a, hashseed, timeout=300)


def report_cross(prop: str, seed: int, tier: str, xviol: list[dict], hs_of: dict, scratch: str, known: list[dict],
                 out: dict, ctx: dict | None = None) -> int:
    rc = 0
    seen: dict[str, int] = {}
    done_sigs: set = set()
    for n, xv in enumerate(xviol):
        if n >= 8:  # each look costs two interpreter starts; the rest is counted, not classified
            seen["(unclassified)"] = len(xviol) - n
            break
        s, (w1, w2), keys = xv["s"], xv["w"], xv["keys"]
        h1, h2 = hs_of[(s, w1)], hs_of[(s, w2)]
        r1 = regen(prop, seed, tier, s, w1, h1, scratch)
        r2 = regen(prop, seed, tier, s, w2, h2, scratch)
        key = keys[0]
        for k in keys:  # report the most basic difference first
            if k == "obj":
                key = k
        sig = classify(prop, key, r1["xv"].get(key), r2["xv"].get(key), r1["case"])
        seen[sig] = seen.get(sig, 0) + 1
        if sig in done_sigs:
            continue
        done_sigs.add(sig)
        c1, c2 = r1["case"], r2["case"]
        info: dict[str, Any] = {}
        kf = M.match_open(known, prop, sig)
        if kf:
            out["known_hits"][sig] = out["known_hits"].get(sig, 0) + 1
            print(f"KNOWN-FINDING: property={prop} {kf['what']} [signature {sig}]", flush=True)
            continue
        name = f"{prop}-{seed}-{s}-pair-{hashlib.sha256(sig.encode()).hexdigest()[:8]}.json"
        path = os.path.join(M.REPLAYS, name)
        doc = {"kind": "pair", "property": prop, "signature": sig, "key": key, "verif_seed": seed, "scenario": s,
               "workers": [w1, w2], "hashseeds": [h1, h2], "cases": [c1, c2], "minimisation": {"minimised": False},
               "values": [r1["xv"].get(key), r2["xv"].get(key)]}
        # reported at once (the file as recorded already replays); minimisation then rewrites it in place
        with open(path, "w") as f:
            json.dump(doc, f, indent=1, sort_keys=True)
        print(f"VIOLATION property={prop} replay={path}", flush=True)
        out["violations"] = out.get("violations", 0) + 1
        out["replays"].append(path)
        rc = 1
        if prop == "C11":
            c1, info = minimise_pair_c11(c1, key, sig, h1, h2)
            c2 = dict(c1, hashseed=h2)
            c1 = dict(c1, hashseed=h1)
        else:
            try:
                c1, c2, info = minimise_pair_graph(prop, c1, c2, key, sig, h1, h2)
            except M.Harness as e:
                info = {"error": str(e)[:300]}
        doc["cases"] = [c1, c2]
        doc["minimisation"] = info
        # verify in fresh interpreters
        rep = replay_values(doc, scratch)
        doc["fresh_replay_values"] = rep
        doc["fresh_replay_reproduces"] = rep[0] != rep[1]
        if not doc["fresh_replay_reproduces"] and ctx is not None:
            # agree when run alone: the difference needs what each interpreter executed before (history)
            pa, pb = M.prefix_candidates(ctx, s, w1), M.prefix_candidates(ctx, s, w2)
            doc["cases"] = [r1["case"], r2["case"]]
            for i in range(max(len(pa), len(pb))):
                doc["prefixes"] = [pa[min(i, len(pa) - 1)] if pa else None, pb[min(i, len(pb) - 1)] if pb else None]
                rep = replay_values(doc, scratch)
                if rep[0] != rep[1]:
                    doc["fresh_replay_values"] = rep
                    doc["fresh_replay_reproduces"] = True
                    doc["history_needed"] = "the two interpreters agree when the case is executed alone; they differ only after the listed scenarios were executed before it (state kept by the code under test between calls)"
                    break
            else:
                doc.pop("prefixes", None)
        with open(path, "w") as f:
            json.dump(doc, f, indent=1, sort_keys=True)
        print(f"  signature={sig} scenario={s} workers={w1},{w2} PYTHONHASHSEED={h1} vs {h2} key={key}", flush=True)
        print(f"  values: {json.dumps(rep[0])[:300]}  VS  {json.dumps(rep[1])[:300]}", flush=True)
    for sig, n in seen.items():
        out["sigs"][sig] = out["sigs"].get(sig, 0) + n
    return rc


def replay_values(doc: dict, scratch: str) -> list:
    vals = []
    prefixes = doc.get("prefixes") or [None, None]
    for case, hs, prefix in zip(doc["cases"], doc["hashseeds"], prefixes):
        tmp = os.path.join(scratch, f"pair-{hs}.json")
        with open(tmp, "w") as f:
            json.dump({"case": case, "prefix": prefix}, f)
        a = {"mode": "replay", "file": tmp, "out": tmp + ".out", "hashseed": hs, "hard_timeout": 300}
        r = M.run_one(a, hs, timeout=300)
        vals.append(r.get("xv", r.get("xd", {})).get(doc["key"]))
    return vals


def replay_pair(prop: str, doc: dict, path: str, scratch: str) -> int:
    vals = replay_values(doc, scratch)
    print(f"replay {path}: PYTHONHASHSEED={doc['hashseeds'][0]} -> {json.dumps(vals[0])[:300]}")
    print(f"replay {path}: PYTHONHASHSEED={doc['hashseeds'][1]} -> {json.dumps(vals[1])[:300]}")
    if vals[0] != vals[1]:
        sig = doc["signature"]
        kf = M.match_open(M.load_known(), prop, sig)
        if kf:
            print(f"KNOWN-FINDING: property={prop} {kf['what']} [signature {sig}]")
            return 0
        print(f"VIOLATION property={prop} replay={path}")
        return 1
    print("not reproduced (both interpreters agree on the current tree)")
    return 0


def minimise_pair_c11(case: dict, key: str, sig: str, h1: int, h2: int) -> tuple[dict, dict]:
    import c11sim

    s1, s2 = Server(h1), Server(h2)
    try:
        def fails(c: dict) -> bool:
            a = s1.eval(c)
            b = s2.eval(c)
            va, vb = a.get("xv", {}).get(key), b.get("xv", {}).get(key)
            if va is None or vb is None or va == vb:
                return False
            return classify("C11", key, va, vb) == sig

        small, info = c11sim.shrink_case(case, fails, 300)
    finally:
        s1.close()
        s2.close()
    info["sig"] = sig
    return small, info


def minimise_pair_graph(prop: str, c1: dict, c2: dict, key: str, sig: str, h1: int, h2: int) -> tuple[dict, dict, dict]:
    """Shrink the two realisations (two hash seeds, two construction histories) of one abstract scenario jointly."""
    import minimise

    s1, s2 = Server(h1), Server(h2)
    budget = minimise.Budget(150)
    try:
        def fails(cs: list) -> bool:
            if budget.left <= 0:
                return False
            budget.left -= 1
            budget.used += 1
            a = s1.eval(cs[0])
            b = s2.eval(cs[1])
            if "error" in a or "error" in b:
                return False
            va, vb = a.get("xv", {}).get(key), b.get("xv", {}).get(key)
            if va is None or vb is None or va == vb:
                return False
            return classify(prop, key, va, vb, cs[0]) == sig

        small, info = minimise.minimise_many([c1, c2], fails, budget)
    finally:
        s1.close()
        s2.close()
    info["sig"] = sig
    return small[0], small[1], info
