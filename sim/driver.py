"""y0sim front end: fan out worker interpreters, run the history checks, minimise, report, write evidence.

usage: main.py <C02|C11|C14> [--tier quick|thorough] [--replay FILE]
       main.py selftest [--quick]
Environment: VERIF_SEED (default 0), VERIF_TIER, Y0SIM_WORKERS (default: min(16, cpus)).
Exit: 0 property held on everything explored; 1 VIOLATION; 2 HARNESS-ERROR.
"""

from __future__ import annotations

import argparse
import hashlib
import json
import os
import shutil
import subprocess
import sys
import tempfile
import time

HERE = os.path.dirname(os.path.abspath(__file__))
VERIF = os.path.dirname(HERE)
PY = "/venv/bin/python"
WORKER = os.path.join(HERE, "worker.py")
if HERE not in sys.path:
    sys.path.insert(0, HERE)
REPLAYS = os.environ.get("Y0SIM_REPLAY_DIR") or os.path.join(VERIF, "replays")
KNOWN_FILE = os.path.join(VERIF, "known_findings.json")
EVIDENCE = os.environ.get("Y0SIM_EVIDENCE_DIR") or os.path.join(VERIF, "evidence")

TIERS = {
    # per property: scenarios per group and waves; group = 4 workers running the same scenario ids
    "quick": {"C14": (1200, 1), "C02": (330, 1), "C11": (3500, 1), "C04": (540, 1), "wall": 200, "min_runs": 300, "max_sigs": 4, "min_wall": 240},
    "thorough": {"C14": (3600, 6), "C02": (1400, 6), "C11": (20000, 6), "C04": (2100, 6), "wall": 3000, "min_runs": 400, "max_sigs": 8, "min_wall": 1800},
}
GROUP = 4


class Harness(Exception):
    pass


def hashseed_for(seed: int, wave: int, w: int) -> int:
    h = hashlib.sha256(f"hs:{seed}:{wave}:{w}".encode()).hexdigest()
    return int(h[:8], 16) % (2**32 - 1) + 1  # 1..2^32-1 (0 would disable randomisation; still legal but keep it random)


def spawn(args: dict, hashseed: int | None) -> subprocess.Popen:
    env = dict(os.environ)
    env.pop("PYTHONSTARTUP", None)
    if hashseed is not None:
        env["PYTHONHASHSEED"] = str(hashseed)
    env["PYTHONDONTWRITEBYTECODE"] = "1"
    if os.environ.get("Y0SIM_SRC"):  # run against a scratch copy of the sources (mutation self-tests)
        env["PYTHONPATH"] = os.environ["Y0SIM_SRC"]
    return subprocess.Popen(
        [PY, WORKER, json.dumps(args)], env=env, stdout=subprocess.PIPE, stderr=subprocess.PIPE, text=True
    )


def wait_all(procs: list[tuple[subprocess.Popen, dict]], timeout: float) -> None:
    deadline = time.time() + timeout
    for p, a in procs:
        left = max(1.0, deadline - time.time())
        try:
            out, err = p.communicate(timeout=left)
        except subprocess.TimeoutExpired:
            for q, _ in procs:
                if q.poll() is None:
                    q.kill()
            raise Harness(f"worker {a.get('wid')} exceeded wall budget {timeout}s")
        if p.returncode != 0:
            tail = (out or "")[-1500:] + (err or "")[-3000:]
            raise Harness(f"worker {a.get('wid')} exited {p.returncode}: {tail}")


def run_one(args: dict, hashseed: int | None, timeout: float = 900) -> dict:
    p = spawn(args, hashseed)
    wait_all([(p, args)], timeout)
    with open(args["out"]) as f:
        lines = [json.loads(x) for x in f if x.strip()]
    return lines[-1]


# --------------------------------------------------------------------------- known findings


def load_known() -> list[dict]:
    if not os.path.exists(KNOWN_FILE):
        return []
    return json.load(open(KNOWN_FILE)).get("findings", [])


def match_open(known: list[dict], prop: str, sig: str) -> dict | None:
    for k in known:
        if k["property"] == prop and k["status"] == "open" and k["signature"] == sig:
            return k
    return None


# --------------------------------------------------------------------------- the check


def collect(prop: str, tier: str, seed: int, scratch: str, per_group: int, waves: int, nworkers: int,
            wall: float) -> tuple[dict, list, list, list]:
    """Fan out the worker interpreters and gather their per-scenario lines."""
    ngroups = nworkers // GROUP
    scen: dict[int, dict[int, dict]] = {}
    stats: list[dict] = []
    viols: list[dict] = []
    hashseeds: list[int] = []
    for wave in range(waves):
        procs = []
        outs = []
        for w in range(nworkers):
            g = w // GROUP
            gid = wave * ngroups + g
            hs = hashseed_for(seed, wave, w)
            hashseeds.append(hs)
            a = {
                "mode": "run", "prop": prop, "seed": seed, "tier": tier, "wid": wave * nworkers + w,
                "lo": gid * per_group, "hi": (gid + 1) * per_group, "hashseed": hs,
                "out": os.path.join(scratch, f"w{wave}_{w}.jsonl"), "wall": wall / waves * 0.9,
                "hard_timeout": int(wall / waves * 2 + 120),
            }
            procs.append((spawn(a, hs), a))
            outs.append(a["out"])
        wait_all(procs, wall / waves * 2 + 180)
        for path in outs:
            with open(path) as f:
                for ln in f:
                    d = json.loads(ln)
                    if d["t"] == "scen":
                        scen.setdefault(d["s"], {})[d["w"]] = d
                        for v in d.get("viol", []):
                            viols.append({"v": v, "case": d["case"], "s": d["s"], "w": d["w"]})
                        d.pop("viol", None)
                        d.pop("case", None)
                    elif d["t"] == "stats":
                        stats.append(d)
            os.remove(path)
    return scen, stats, viols, hashseeds


def run_check(prop: str, tier: str, seed: int, scratch: str) -> int:
    t0 = time.time()
    cfg = dict(TIERS[tier])
    cfg["max_sigs"] = int(os.environ.get("Y0SIM_MAXSIGS", cfg["max_sigs"]))
    per_group, waves = cfg[prop]
    per_group = int(os.environ.get("Y0SIM_SCEN", per_group))
    waves = int(os.environ.get("Y0SIM_WAVES", waves))
    nworkers = int(os.environ.get("Y0SIM_WORKERS", min(16, os.cpu_count() or 4)))
    nworkers = max(GROUP, nworkers - nworkers % GROUP)
    ngroups = nworkers // GROUP
    print(f"y0sim property={prop} tier={tier} VERIF_SEED={seed} workers={nworkers} groups={ngroups} "
          f"scenarios/group={per_group} waves={waves}", flush=True)
    known = load_known()
    scen, stats, viols, hashseeds = collect(prop, tier, seed, scratch, per_group, waves, nworkers, cfg["wall"])
    # ---- history check across workers (different hash seeds, different construction histories)
    xviol: list[dict] = []
    xcompared = 0
    for s, byw in sorted(scen.items()):
        ws = sorted(byw)
        if len(ws) < 2:
            continue
        ref = byw[ws[0]]
        for w in ws[1:]:
            xcompared += 1
            other = byw[w]
            keys = sorted(set(ref["xd"]) | set(other["xd"]))
            bad = [k for k in keys if ref["xd"].get(k) != other["xd"].get(k)]
            if bad:
                xviol.append({"s": s, "w": [ws[0], w], "keys": bad})
    hs_of = {(s, w): d.get("hs") for s, byw in scen.items() for w, d in byw.items()}
    cfg["ctx"] = {"per_group": per_group, "nworkers": nworkers, "tier": tier, "prop": prop, "seed": seed}
    res = report(prop, tier, seed, scratch, known, viols, xviol, cfg, hs_of)
    write_evidence(prop, tier, seed, t0, scen, stats, hashseeds, viols, xviol, xcompared, res)
    return res["exit"]


def sig_of_cross(prop: str, keys: list[str]) -> str:
    kinds = sorted({k.split(":")[0] if ":" in k else "result" for k in keys})
    return f"{prop}/O5/cross-worker/{'+'.join(kinds)}-differs-between-hash-seeds-or-histories"


def report(prop: str, tier: str, seed: int, scratch: str, known: list[dict], viols: list[dict],
           xviol: list[dict], cfg: dict, hs_of: dict) -> dict:
    os.makedirs(REPLAYS, exist_ok=True)
    bysig: dict[str, list[dict]] = {}
    for v in viols:
        bysig.setdefault(v["v"]["sig"], []).append(v)
    out = {"exit": 0, "violations": 0, "known_hits": {}, "sigs": {}, "replays": []}
    n = 0
    t_min = time.time()
    for sig, items in sorted(bysig.items()):
        out["sigs"][sig] = len(items)
        items.sort(key=lambda x: (x["s"], x["w"]))
        rep = items[0]
        k = match_open(known, prop, sig)
        if k:
            out["known_hits"][sig] = len(items)
            print(f"KNOWN-FINDING: property={prop} {k['what']} [signature {sig}; {len(items)} hits]", flush=True)
            continue
        # the violation is reported at once, with the replay file as recorded; minimisation then replaces the file
        # in place, so whoever stops this process early still has the VIOLATION line and a file that replays
        path = write_replay(prop, seed, rep, sig, None, None)
        print(f"VIOLATION property={prop} replay={path}", flush=True)
        out["exit"] = 1
        out["violations"] += 1
        out["replays"].append(path)
        if n >= cfg["max_sigs"] or time.time() - t_min > cfg.get("min_wall", 1e9):
            why = "signature budget exhausted" if n >= cfg["max_sigs"] else "minimisation time budget exhausted"
            print(f"  signature={sig} hits={len(items)} (not minimised: {why})", flush=True)
            continue
        n += 1
        small, info = minimise_case(rep["case"], sig, scratch, cfg["min_runs"])
        if small is None and not info.get("reproduced", True):
            # not reproducible from the case alone: does it depend on what ran earlier in that interpreter?
            prefix = find_prefix(cfg["ctx"], rep["s"], rep["w"], rep["case"], sig, scratch)
            if prefix is not None:
                rep["prefix"] = prefix
                info["history_needed"] = True
                info["prefix_len"] = len(prefix["ids"])
        write_replay(prop, seed, rep, sig, small, info)
        print(f"  signature={sig} hits={len(items)} scenario={rep['s']} worker={rep['w']} "
              f"minimised_in={info.get('runs')} runs interleaving_needed={info.get('interleaving_needed')}", flush=True)
        print("  " + summarise(small if small else rep["case"], sig), flush=True)
    if xviol:
        import pairs

        xs = pairs.report_cross(prop, seed, tier, xviol, hs_of, scratch, known, out, cfg.get("ctx"))
        out["exit"] = max(out["exit"], xs)
    return out


def worker_range(ctx: dict, wid: int) -> tuple[int, int]:
    nworkers, per_group = ctx["nworkers"], ctx["per_group"]
    wave, w = divmod(wid, nworkers)
    gid = wave * (nworkers // GROUP) + w // GROUP
    return gid * per_group, (gid + 1) * per_group


def prefix_candidates(ctx: dict, s: int, wid: int) -> list[dict]:
    """Suffixes (length 1, 2, 4, ... all) of what worker `wid` executed before scenario s."""
    from order import scenario_order

    lo, hi = worker_range(ctx, wid)
    order = scenario_order(lo, hi, ctx["seed"], wid)
    if s not in order:
        return []
    before = order[: order.index(s)]
    out, k = [], 1
    while before:
        ids = before[-k:]
        out.append({"prop": ctx["prop"], "seed": ctx["seed"], "tier": ctx["tier"], "wid": wid, "ids": ids})
        if k >= len(before):
            break
        k *= 2
    return out


def find_prefix(ctx: dict, s: int, wid: int, case: dict, sig: str, scratch: str) -> dict | None:
    for prefix in prefix_candidates(ctx, s, wid):
        tmp = os.path.join(scratch, "prefix-try.json")
        with open(tmp, "w") as f:
            json.dump({"case": case, "prefix": prefix}, f)
        a = {"mode": "replay", "file": tmp, "out": tmp + ".out", "hashseed": case.get("hashseed"), "hard_timeout": 900}
        try:
            r = run_one(a, case.get("hashseed"), timeout=900)
        except Harness:
            continue
        if any(v["sig"] == sig for v in r.get("viol", [])):
            return prefix
    return None


def minimise_case(case: dict, sig: str, scratch: str, max_runs: int) -> tuple[dict | None, dict]:
    tmp = os.path.join(scratch, f"min-{hashlib.sha256(sig.encode()).hexdigest()[:10]}.json")
    with open(tmp, "w") as f:
        json.dump({"case": case}, f)
    a = {"mode": "minimise", "file": tmp, "sig": sig, "out": tmp + ".out", "max_runs": max_runs,
         "hashseed": case.get("hashseed"), "hard_timeout": 900}
    try:
        d = run_one(a, case.get("hashseed"), timeout=900)
    except Harness as e:
        return None, {"error": str(e)[:500]}
    small, info = d["case"], d["info"]
    # the minimised file must fail the same way in a fresh interpreter
    with open(tmp, "w") as f:
        json.dump({"case": small}, f)
    a2 = {"mode": "replay", "file": tmp, "out": tmp + ".rep", "hashseed": small.get("hashseed"), "hard_timeout": 300}
    try:
        r = run_one(a2, small.get("hashseed"), timeout=300)
        info["fresh_replay_reproduces"] = any(v["sig"] == sig for v in r.get("viol", []))
    except Harness as e:
        info["fresh_replay_reproduces"] = False
        info["replay_error"] = str(e)[:300]
    if not info["fresh_replay_reproduces"]:
        info["reproduced"] = False
        return None, info
    return small, info


def write_replay(prop: str, seed: int, rep: dict, sig: str, small: dict | None, info: dict | None) -> str:
    case = small if small is not None else rep["case"]
    name = f"{prop}-{seed}-{rep['s']}-{hashlib.sha256(sig.encode()).hexdigest()[:8]}.json"
    path = os.path.join(REPLAYS, name)
    doc = {
        "property": prop,
        "signature": sig,
        "verif_seed": seed,
        "scenario": rep["s"],
        "worker": rep["w"],
        "hashseed": case.get("hashseed"),
        "minimised": small is not None,
        "minimisation": info,
        "violation": rep["v"],
        "summary": summarise(case, sig),
        "case": case,
    }
    if rep.get("prefix"):
        doc["prefix"] = rep["prefix"]
        doc["history_needed"] = "the violation does not occur when the case is executed alone in a fresh interpreter; it needs the listed scenarios to have been executed before it in the same interpreter (state kept by the code under test between calls)"
    with open(path, "w") as f:
        json.dump(doc, f, indent=1, sort_keys=True)
    return path


def summarise(case: dict, sig: str) -> str:
    if case.get("prop") in ("C14", "C02", "C04"):
        ops = []
        for r, rnd in enumerate(case["rounds"]):
            for c in sorted(rnd["scripts"]):
                for k, spec in enumerate(rnd["scripts"][c]):
                    if spec["op"] != "nop":
                        tgt = spec.get("t", ["q", spec.get("q")])
                        ops.append(f"r{r}.{c}.{k}:{spec['op']}({json.dumps(spec.get('a', {}))})@{tgt}")
        gs = ["N=%s D=%s B=%s" % (g["nodes"], g["D"], g["B"]) for g in case["graphs"]]
        qs = [q for q in (case.get("queries") or []) if q.get("g", 0) < len(case["graphs"])] or None
        sw = sum(len([e for e in sc if e[1] not in ("begin", "end")]) for p in case["pops"]
                 for sc in (p.get("schedule") or {}).values())
        return f"graphs: {gs} queries: {qs} ops: {ops} pops: {[p['name'] for p in case['pops']]} switches: {sw}"
    return json.dumps(case)[:1500]


# --------------------------------------------------------------------------- evidence


def _merge(dst: dict, src: dict) -> None:
    for k, v in src.items():
        if isinstance(v, dict):
            _merge(dst.setdefault(k, {}), v)
        elif isinstance(v, (int, float)):
            dst[k] = dst.get(k, 0) + v


def write_evidence(prop: str, tier: str, seed: int, t0: float, scen: dict, stats: list[dict], hashseeds: list[int],
                   viols: list[dict], xviol: list[dict], xcompared: int, res: dict) -> None:
    os.makedirs(EVIDENCE, exist_ok=True)
    agg: dict = {}
    inter: set = set()
    samples = []
    execs = 0
    nontrivial_cases: set = set()
    for st in stats:
        _merge(agg, st["agg"])
        inter.update(st.get("interleavings", []))
        execs += st["done"]
        samples += st.get("samples", [])
    for s, byw in scen.items():
        if prop == "C11":
            # non-trivial iff at least two different iteration orders of the variable set were observed
            if len({d.get("io") for d in byw.values()}) >= 2:
                nontrivial_cases.add(s)
            continue
        for w, d in byw.items():
            if d.get("nt"):
                nontrivial_cases.add((s, w))
    wall = time.time() - t0
    top = lambda d, n=25: dict(sorted(d.items(), key=lambda kv: -kv[1])[:n])  # noqa: E731
    cov = {
        "evaluations": execs,
        "distinct_nontrivial": len(nontrivial_cases),
        "rule": RULES[prop],
        "samples": samples[:3],
        "scenarios_distinct": len(scen),
        "workers": len(stats),
        "hash_seeds_distinct": len(set(hashseeds)),
        "cross_worker_comparisons": xcompared,
        "runs_per_hour": int(execs / max(wall, 1e-6) * 3600),
        "seeds_per_hour": round(3600 / max(wall, 1e-6), 2),
        "simulated_time": {
            "note": "logical only: the system under test reads no clock; time is counted in y0 line events",
            "line_events": agg.get("events", 0),
            "context_switches": agg.get("switches", 0),
        },
        "faults_fired": agg.get("faults", {}) if prop != "C11" else {
            "hashseed": len(set(hashseeds)), "presentation(reorder/renest)": agg.get("presentations", 0),
            "preempt": agg.get("switches", 0), "abort": agg.get("aborts", 0), "lock-wait": agg.get("lock_waits", 0)},
        "distinct_interleavings": len(inter),
        "interleaving_measure": "digest of the full recorded schedule (who ran, at which op and line each switch happened) of a population round with at least one switch inside an operation",
        "ops_executed": agg.get("ops", {}),
        "switch_sites_top": top(agg.get("switch_sites", {})),
        "abort_sites_top": top(agg.get("abort_sites", {})),
        "y0_functions_entered_top": top(agg.get("calls", {}), 40),
        "probes": agg.get("probes", {}),
        "id_algorithm_reach": {k: agg.get("calls", {}).get(k, 0) for k in
                               ("identify", "line_1", "line_2", "line_3", "line_4", "line_7", "p_parents",
                                "_get_single_district", "with_treatments", "from_parts")} | {
                                   "line_5_refusals(=unident verdicts)": agg.get("probes", {}).get("ID.verdict.unident", 0),
                                   "line_6_or_7_reached(=_get_single_district)": agg.get("calls", {}).get("_get_single_district", 0),
                               } if prop == "C02" else None,
        "extra": {k: v for k, v in agg.items() if k not in ("events", "switches", "faults", "ops", "switch_sites",
                                                              "abort_sites", "calls", "probes")},
        "violation_signatures": res.get("sigs", {}),
        "known_finding_hits": res.get("known_hits", {}),
        "real_vs_stub": "real: all of y0, networkx, CPython sets/dicts and hash randomisation; simulated: thread scheduling (baton), abort points, hash seed choice, construction order; stubbed: nothing in the system under test; harness-side reference models only",
    }
    doc = {
        "property_id": prop,
        "tier": tier,
        "seed": seed,
        "level": "exploration",
        "coverage": cov,
        "assumptions": ASSUMPTIONS[prop],
        "wall_s": round(wall, 2),
        "violations": res.get("violations", 0),
    }
    with open(os.path.join(EVIDENCE, f"{prop}.json"), "w") as f:
        json.dump(doc, f, indent=1, sort_keys=True)
    print(f"evidence: {os.path.join(EVIDENCE, prop + '.json')} evaluations={execs} "
          f"distinct_nontrivial={len(nontrivial_cases)} wall={wall:.1f}s", flush=True)


RULES = {
    "C14": "scenario = seeded abstract world (1-3 mixed graphs n<=7, acyclic or cyclic, isolated and bidirected-only nodes) + per-round scripts of the 15 surgery operations for 2-4 callers + evolve steps; each scenario is executed by 4 worker interpreters (distinct PYTHONHASHSEED, distinct construction history) and in each as 3 populations (sequential baseline, interleaved, interleaved+aborts); evaluations = scenario executions; a (scenario, worker) pair is non-trivial iff at least one context switch or abort landed inside an operation (at a y0 line event, not at an operation boundary); distinct = distinct (scenario id, worker id)",
    "C02": "scenario = seeded ADMG(s) n<=6 + 1-3 queries (X,Y disjoint non-empty) whose set/Query/Identification objects are shared by 2-4 callers running identify_outcomes/identify (and read-only surgery ops) ; executed by 4 workers (distinct hash seed + construction history) x 2 populations (sequential, interleaved); every third scenario id is instead a *sweep* scenario: one caller, no pre-emption, up to 70 distinct (X, Y) queries (1-3 treatments, 1-3 outcomes) on one ADMG n<=7, executed by the same 4 workers, which buys volume for the reference-model and cross-interpreter oracles; non-trivial iff a context switch landed inside an operation (sweep scenarios never are); distinct = distinct (scenario id, worker id)",
    "C04": "scenario = seeded acyclic ADMG(s) n<=7 (plus nodes added by evolve steps) + per-round scripts of are_d_separated(a, b | C) queries (35 % asked in both argument orders; conditioning sets biased toward endpoints of bidirected edges and their descendants; conditions passed as set/frozenset/list/tuple/None/list with duplicates) and read-only surgery ops for 2-4 callers on the shared graph objects, evolve steps between rounds (1-3 random builder calls and/or one edge aimed between two nodes inside the ancestral set of an already-asked question, which is asked again first thing in the next round); executed by 4 workers (distinct PYTHONHASHSEED, distinct construction history and constructor) x 3 populations (sequential baseline, interleaved, interleaved+aborts); every third scenario id is instead a *sweep* scenario (one caller, no pre-emption, 60 queries on one ADMG n<=8, same 4 workers); non-trivial iff a context switch or abort landed inside an operation (sweep scenarios never are); distinct = distinct (scenario id, worker id)",
    "C11": "case = seeded expression recipe (depth<=4, <=6 fresh variable names) with 2-5 presentation permutations and an ordering; executed by 4 workers with distinct PYTHONHASHSEED; non-trivial iff at least two different iteration orders of the case's variable set were actually observed among the workers that ran it; every fifth case id is instead a *concurrent-callers* scenario: 2-3 callers canonicalise related expressions (shared names, permuted presentations, near-duplicates, different orderings) under the seeded baton scheduler (uniform / PCT / hot policies), and every result must equal the one of the sequential pass in the same interpreter; distinct = distinct case id",
}
ASSUMPTIONS = {
    "C14": [
        "pre-emption granularity is one y0 source line (plus networkx/classes lines in part of the thorough tier)",
        "the three-set reference model in sim/models.py states the definitions of the property correctly",
        "seeded sampling: a clean batch is evidence, not proof",
    ],
    "C02": [
        "Tian-Pearl decision procedure in sim/models.py is a correct and complete identifiability oracle (Huang & Valtorta 2006)",
        "pre-emption granularity is one y0 source line",
        "seeded sampling: a clean batch is evidence, not proof",
    ],
    "C04": [
        "the Bayes-ball reachability procedure on the explicit latent-variable DAG in sim/models.py is a correct m-separation oracle (cross-checked against path enumeration by ./check selftest)",
        "pre-emption granularity is one y0 source line",
        "seeded sampling: a clean batch is evidence, not proof",
    ],
    "C11": [
        "hash seeds are sampled (4 per case), not enumerated",
        "presentations are restricted to the three differences the statement names",
        "concurrent-callers scenarios: pre-emption granularity is one y0 source line",
        "seeded sampling: a clean batch is evidence, not proof",
    ],
}


# --------------------------------------------------------------------------- replay


def do_replay(prop: str, path: str, scratch: str) -> int:
    doc = json.load(open(path))
    if doc.get("kind") == "pair":
        import pairs

        return pairs.replay_pair(prop, doc, path, scratch)
    sig = doc["signature"]
    a = {"mode": "replay", "file": path, "out": os.path.join(scratch, "replay.out"),
         "hashseed": doc["case"].get("hashseed"), "hard_timeout": 600}
    r = run_one(a, doc["case"].get("hashseed"), timeout=600)
    sigs = [v["sig"] for v in r.get("viol", [])]
    print(f"replay {path}: PYTHONHASHSEED={doc['case'].get('hashseed')} signatures={sorted(set(sigs))} event-digest={r.get('ed')}")
    if sig in sigs:
        k = match_open(load_known(), prop, sig)
        if k:
            print(f"KNOWN-FINDING: property={prop} {k['what']} [signature {sig}]")
            return 0
        print(f"VIOLATION property={prop} replay={path}")
        return 1
    print("not reproduced (the recorded violation does not occur on the current tree)")
    return 0


def regression_witnesses(prop: str, scratch: str) -> int:
    """Replay the witnesses of *fixed* findings: a fixed entry suppresses nothing and must stay fixed."""
    bad = 0
    for k in load_known():
        if k["property"] != prop or k["status"] != "fixed" or not k.get("witness"):
            continue
        path = os.path.join(VERIF, k["witness"])
        if not os.path.exists(path):
            raise Harness(f"witness missing: {path}")
        rc = do_replay(prop, path, scratch)
        if rc == 1:
            bad += 1
    return bad


def main() -> int:
    ap = argparse.ArgumentParser()
    ap.add_argument("prop")
    ap.add_argument("--tier", default=os.environ.get("VERIF_TIER") or "quick")
    ap.add_argument("--replay")
    ap.add_argument("--quick", action="store_true")
    ap.add_argument("--thorough", action="store_true")
    ap.add_argument("--collect")
    ns = ap.parse_args()
    seed = int(os.environ.get("VERIF_SEED") or 0)
    scratch = tempfile.mkdtemp(prefix="y0sim-", dir=os.environ.get("TMPDIR") or "/tmp")
    try:
        if ns.prop == "selftest":
            import selftest

            return selftest.run(quick=not (ns.thorough or ns.tier == "thorough"), scratch=scratch)
        if ns.prop == "_collect":
            import selftest

            c = json.loads(ns.collect)
            print(json.dumps(selftest.collect_digests(c["prop"], c["per_group"], c["nworkers"], seed, scratch)))
            return 0
        if ns.prop not in ("C02", "C04", "C11", "C14"):
            print(f"HARNESS-ERROR: unknown property {ns.prop}")
            return 2
        if ns.replay:
            return do_replay(ns.prop, ns.replay, scratch)
        tier = ns.tier if ns.tier in TIERS else "quick"
        bad = regression_witnesses(ns.prop, scratch)
        rc = run_check(ns.prop, tier, seed, scratch)
        return 1 if (bad or rc == 1) else rc
    except Harness as e:
        print(f"HARNESS-ERROR: {e}")
        return 2
    finally:
        shutil.rmtree(scratch, ignore_errors=True)


