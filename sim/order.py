"""Order in which a worker executes its scenario range (no y0 import: the parent uses it too).

The four workers of a group execute the same scenario ids in four different orders, so
that a result which depends on what was executed earlier in the same interpreter (a
process-global cache in the code under test) shows up as a cross-worker difference.
"""

from __future__ import annotations

import random


def scenario_order(lo: int, hi: int, seed: int, wid: int) -> list[int]:
    ids = list(range(lo, hi))
    k = wid % 4
    if k == 1:
        ids.reverse()
    elif k in (2, 3):
        random.Random(f"order:{seed}:{wid}").shuffle(ids)
    return ids
