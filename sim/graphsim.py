"""Simulation of callers operating on shared mixed graphs / shared ID queries (C14 and C02).

A *case* is a fully explicit JSON structure (abstract graphs, one construction history
per graph, per-round caller scripts, evolve steps, populations with either a PRNG-driven
or an explicit schedule).  `run_case` executes it and returns violations (each with the
explicit schedule needed to replay it), canonical result digests and reach statistics.
"""

from __future__ import annotations

import random
from typing import Any, Callable

import networkx as nx

from y0.algorithm.conditional_independencies import are_d_separated
from y0.algorithm.identify import Identification, Query, Unidentifiable, identify, identify_outcomes
from y0.dsl import Expression, Intervention
from y0.graph import NxMixedGraph, get_nodes_in_directed_paths
from y0.struct import DSeparationJudgement

import world
from kernel import HarnessError, Sched
from models import MG, identifiable, m_separated
from ser import (
    digest,
    ser_var,
    fingerprint_public,
    graph_canonical,
    graph_fingerprint,
    ser_expr,
    ser_result,
    ser_vars_sorted,
)
from world import mkvar

SURGERY_OPS = (
    "subgraph",
    "remove_in_edges",
    "remove_out_edges",
    "remove_nodes_from",
    "intervene",
    "ancestors_inclusive",
    "descendants_inclusive",
    "districts",
    "get_markov_pillow",
    "get_markov_blanket",
    "moralize",
    "disorient",
    "pre",
    "topological_sort",
    "get_nodes_in_directed_paths",
)
GRAPH_VALUED = {
    "subgraph",
    "remove_in_edges",
    "remove_out_edges",
    "remove_nodes_from",
    "intervene",
    "moralize",
}
ID_OPS = ("identify_outcomes", "identify", "identify_fresh")
DSEP_OPS = ("are_d_separated",)
JUDGED = {"C14": SURGERY_OPS, "C02": ID_OPS, "C04": DSEP_OPS}
SENTINEL = "ZZsentinel"


# =========================================================================== generation helpers


def _subset(rng: random.Random, nodes: list[str], lo: int = 0) -> list[str]:
    nodes = sorted(nodes)
    if not nodes:
        return []
    r = rng.random()
    if r < 0.1 and lo == 0:
        k = 0
    elif r < 0.2:
        k = len(nodes)
    else:
        k = rng.randint(lo, len(nodes))
    k = max(lo, min(k, len(nodes)))
    out = rng.sample(nodes, k)
    return out


def _container(rng: random.Random, xs: list[str], single_ok: bool = True, kind: str = "iterable") -> str:
    """How the argument is passed -- only container types the operation's own annotation admits.

    'iterable'   (Variable | Iterable[Variable]): anything, including a one-shot generator and a dict-keys view;
    'collection' (Collection[Variable], get_markov_pillow): sized, re-iterable containers only;
    'set'        (Variable | set[Variable], get_nodes_in_directed_paths; set[Intervention], intervene): real sets."""
    if kind == "set":
        opts = ["set"]
    elif kind == "collection":
        opts = ["set", "frozenset", "list", "tuple", "dictkeys"]
    else:
        opts = ["set", "frozenset", "list", "tuple", "set", "list", "gen", "dictkeys"]
    if single_ok and len(xs) == 1:
        opts += ["single", "single"]
    return rng.choice(opts)


def _is_plain(m: MG) -> bool:
    """No counterfactual and no value-marked nodes (what `intervene` is generated for)."""
    return all("@" not in n and n[:1] not in "+-" for n in m.N)


def _no_cf(m: MG) -> bool:
    return all("@" not in n for n in m.N)


def _rand_linear_extension(rng: random.Random, m: MG) -> list[str]:
    indeg = {n: 0 for n in m.N}
    for _, v in m.D:
        indeg[v] += 1
    avail = sorted(n for n, k in indeg.items() if k == 0)
    out = []
    while avail:
        n = avail.pop(rng.randrange(len(avail)))
        out.append(n)
        for c in sorted(m.children(n)):
            indeg[c] -= 1
            if indeg[c] == 0:
                avail.append(c)
        avail.sort()
    return out


def gen_surgery_op(rng: random.Random, target: list, m: MG, ops: tuple = SURGERY_OPS) -> dict | None:
    """Draw one surgery operation that is defined on the model graph m."""
    nodes = sorted(m.N)
    acyclic = m.is_acyclic()
    for _ in range(20):
        op = rng.choice(ops)
        a: dict[str, Any] = {}
        if op in ("topological_sort", "pre") and not acyclic:
            continue
        if op == "intervene":
            if not _is_plain(m) or not nodes:
                continue
            S = _subset(rng, nodes, lo=1)
            a = {"I": [[x, rng.random() < 0.5] for x in S], "c": "set"}
        elif op in (
            "subgraph",
            "remove_in_edges",
            "remove_out_edges",
            "remove_nodes_from",
            "ancestors_inclusive",
            "descendants_inclusive",
            "get_markov_blanket",
        ):
            S = _subset(rng, nodes)
            a = {"S": S, "c": _container(rng, S)}
            if rng.random() < 0.05:
                # fault 'badarg': an argument that names a node the graph does not have.  Whatever the call
                # does (raise, ignore it), the receiver must come out unchanged; the result is not judged.
                a["bad"] = "Zzmissing"
                a["c"] = rng.choice(("set", "list", "tuple"))
        elif op == "get_markov_pillow":
            S = _subset(rng, nodes)
            a = {"S": S, "c": _container(rng, S, single_ok=False, kind="collection")}
        elif op == "pre":
            S = _subset(rng, nodes)
            a = {"S": S, "c": _container(rng, S)}
            a["order"] = _rand_linear_extension(rng, m) if rng.random() < 0.5 else None
        elif op == "get_nodes_in_directed_paths":
            if len(nodes) < 2:
                continue
            S = _subset(rng, nodes, lo=1)
            rest = [x for x in nodes if x not in S]
            if not rest:
                S = S[:-1]
                rest = [x for x in nodes if x not in S]
            T = _subset(rng, rest, lo=1)
            a = {"S": S, "cS": _container(rng, S, kind="set"), "T": T, "cT": _container(rng, T, kind="set")}
        return {"op": op, "t": target, "a": a}
    return None


def gen_dsep_op(rng: random.Random, target: list, m: MG, focus: list | None = None) -> dict | None:
    """Draw one separation query (a, b | C) on the model graph m (acyclic, >= 2 nodes).

    With `focus` (nodes the last edit introduced) half of the queries are drawn *around* such a node: the two
    end points come from its neighbourhood, it is itself neither an end point nor conditioned on, its
    neighbours are likely to be conditioned on -- so the answer depends on paths through the newcomer."""
    nodes = sorted(m.N)
    if len(nodes) < 2 or not m.is_acyclic() or not _no_cf(m):
        return None
    f = None
    if focus and rng.random() < 0.5:
        cand = [x for x in focus if x in m.N]
        f = rng.choice(cand) if cand else None
    if f is not None:
        nb1 = sorted({x for e in m.B if f in e for x in e if x != f} | m.parents(f) | m.children(f))
        nb2 = sorted({y for x in nb1 for e in m.B if x in e for y in e} | {y for x in nb1 for y in m.parents(x) | m.children(x)})
        pool = [x for x in sorted(set(nb1) | set(nb2)) if x != f]
        if len(pool) >= 2:
            a, b = rng.sample(pool, 2)
            rest = [x for x in nodes if x not in (a, b, f)]
            C = [x for x in rest if rng.random() < (0.6 if x in nb1 else 0.25)]
        else:
            f = None
    if f is None:
        a, b = rng.sample(nodes, 2)
        rest = [x for x in nodes if x not in (a, b)]
        r = rng.random()
        if r < 0.15 or not rest:
            C = []
        elif r < 0.45:
            # bias: condition on endpoints of bidirected edges and on their descendants (colliders through latents)
            bi = sorted({x for e in m.B for x in e} - {a, b})
            pool2 = sorted(set(bi) | (m.descendants_inclusive(bi) - {a, b})) or rest
            C = rng.sample(pool2, rng.randint(1, len(pool2)))
        else:
            C = rng.sample(rest, rng.randint(0, len(rest)))
    c = rng.choice(("set", "frozenset", "list", "tuple", "none" if not C else "list", "dup-list", "gen", "dictkeys"))
    spec = {"op": "are_d_separated", "t": target, "a": {"a": a, "b": b, "C": C, "c": c, "sym": rng.random() < 0.35}}
    if rng.random() < 0.04:
        # fault 'badarg': a conditioning node the graph does not have (documented to raise KeyError, possibly
        # after work has been done); the calls that follow must be unaffected
        spec["a"]["bad"] = "Zzmissing"
        spec["a"]["c"] = rng.choice(("set", "list", "tuple"))
    return spec


# =========================================================================== model pass


def model_op(spec: dict, m: MG) -> tuple[str, Any, MG | None]:
    """(kind, expected canonical value or checker tag, resulting model if graph-valued)."""
    op, a = spec["op"], spec["a"]
    if a.get("bad"):
        return "badarg", None, None
    if op == "subgraph":
        r = m.subgraph(a["S"])
        return "graph", r.canonical(), r
    if op == "remove_in_edges":
        r = m.remove_in_edges(a["S"])
        return "graph", r.canonical(), r
    if op == "remove_out_edges":
        r = m.remove_out_edges(a["S"])
        return "graph", r.canonical(), r
    if op == "remove_nodes_from":
        r = m.remove_nodes_from(a["S"])
        return "graph", r.canonical(), r
    if op == "intervene":
        r = m.intervene([(n, s) for n, s in a["I"]])
        return "graph", r.canonical(), r
    if op == "moralize":
        r = m.moralize()
        return "graph", r.canonical(), r
    if op == "ancestors_inclusive":
        return "set", sorted(m.ancestors_inclusive(a["S"])), None
    if op == "descendants_inclusive":
        return "set", sorted(m.descendants_inclusive(a["S"])), None
    if op == "districts":
        return "setofsets", sorted(sorted(d) for d in m.districts()), None
    if op == "get_markov_pillow":
        return "set", sorted(m.markov_pillow(a["S"])), None
    if op == "get_markov_blanket":
        return "set", sorted(m.markov_blanket(a["S"])), None
    if op == "disorient":
        return "nxgraph", m.disorient(), None
    if op == "topological_sort":
        return "list", ("linext",), None
    if op == "pre":
        return "list", ("pre", sorted(a["S"]), a.get("order")), None
    if op == "get_nodes_in_directed_paths":
        return "set", sorted(m.nodes_in_directed_paths(a["S"], a["T"])), None
    if op == "are_d_separated":
        left, right = sorted([a["a"], a["b"]])
        return "dsep", {"sep": m_separated(m, a["a"], a["b"], a["C"]), "left": left, "right": right,
                        "cond": sorted(set(a["C"]))}, None
    raise ValueError(op)


def op_valid(spec: dict, m: MG) -> bool:
    """Is the op still within its domain on model m (minimisation may have shrunk the world)?"""
    op, a = spec["op"], spec["a"]
    N = m.N
    for key in ("S", "T"):
        if key in a and not set(a[key]) <= N:
            return False
    if op == "intervene":
        if not _is_plain(m) or not a["I"] or not {n for n, _ in a["I"]} <= N:
            return False
    if op in ("topological_sort", "pre") and not m.is_acyclic():
        return False
    if op == "pre" and a.get("order") is not None and not m.is_linear_extension(a["order"]):
        return False
    if op == "get_nodes_in_directed_paths":
        if not a["S"] or not a["T"] or set(a["S"]) & set(a["T"]):
            return False
    if op == "are_d_separated":
        if a["a"] == a["b"] or not {a["a"], a["b"]} <= N or not set(a["C"]) <= N - {a["a"], a["b"]}:
            return False
        if not m.is_acyclic() or not _no_cf(m):
            return False
    return True


def check_list_result(tag: tuple, got: list[str], m: MG) -> str | None:
    """Order-valued results are checked against their definition, not against one answer."""
    if tag[0] == "linext":
        if not m.is_linear_extension(got):
            return "not-a-linear-extension"
        return None
    _, S, order = tag
    S = set(S)
    if order is not None:
        exp = []
        for n in order:
            if n in S:
                break
            exp.append(n)
        return None if got == exp else "pre-not-prefix-of-given-order"
    if len(set(got)) != len(got) or not set(got) <= m.N:
        return "pre-bad-elements"
    if set(got) & S:
        return "pre-contains-query-node"
    seen: set = set()
    for n in got:
        if not m.parents(n) <= seen:
            return "pre-not-topological"
        seen.add(n)
    if not (S & m.N):
        return None if seen == set(m.N) else "pre-not-maximal"
    if not any(m.parents(s) <= seen for s in S & m.N):
        return "pre-not-maximal"
    return None


def diff_predicate(kind: str, got: Any, exp: Any) -> str:
    if kind == "graph":
        if got["Nd"] != got["Nu"] or got["N"] != got["Nd"]:
            return "directed-undirected-node-sets-differ"
        for key in ("N", "D", "B"):
            g = {tuple(x) if isinstance(x, list) else x for x in got[key]}
            e = {tuple(x) if isinstance(x, list) else x for x in exp[key]}
            if g - e and e - g:
                return f"{key}-different"
            if e - g:
                return f"{key}-missing"
            if g - e:
                return f"{key}-extra"
        return "other"
    if kind == "nxgraph":
        for key in ("N", "E"):
            g = {tuple(x) if isinstance(x, list) else x for x in got[key]}
            e = {tuple(x) if isinstance(x, list) else x for x in exp[key]}
            if e - g:
                return f"{key}-missing"
            if g - e:
                return f"{key}-extra"
        return "directedness"
    if kind in ("set", "setofsets"):
        g = {tuple(x) if isinstance(x, list) else x for x in got}
        e = {tuple(x) if isinstance(x, list) else x for x in exp}
        if g - e and e - g:
            return "different"
        return "missing" if e - g else "extra"
    return "different"


# =========================================================================== realisation of arguments


def _mkarg(names: list[str], c: str) -> Any:
    vs = [mkvar(n) for n in names]
    if c == "single":
        return vs[0]
    if c == "set":
        return set(vs)
    if c == "frozenset":
        return frozenset(vs)
    if c == "tuple":
        return tuple(vs)
    if c == "gen":
        return (v for v in vs)  # a one-shot iterable: the annotations say Iterable[Variable]
    if c == "dictkeys":
        return {v: None for v in vs}.keys()
    return list(vs)


def prepare_surgery(spec: dict, tgt: NxMixedGraph) -> Callable[[], Any]:
    """Build the argument objects (untraced) and return the thunk to run under the scheduler."""
    op, a = spec["op"], spec["a"]
    if op in ("subgraph", "remove_in_edges", "remove_out_edges", "remove_nodes_from",
              "ancestors_inclusive", "descendants_inclusive", "get_markov_pillow", "get_markov_blanket"):
        arg = _mkarg(a["S"] + ([a["bad"]] if a.get("bad") else []), a["c"])
        meth = getattr(tgt, op)
        return lambda: meth(arg)
    if op == "intervene":
        ints = [Intervention(name=n, star=bool(s)) for n, s in a["I"]]
        arg = set(ints) if a["c"] == "set" else frozenset(ints) if a["c"] == "frozenset" else list(ints)
        return lambda: tgt.intervene(arg)
    if op in ("districts", "moralize", "disorient", "topological_sort"):
        meth = getattr(tgt, op)
        return lambda: meth()
    if op == "pre":
        arg = _mkarg(a["S"], a["c"])
        order = None if a.get("order") is None else [mkvar(n) for n in a["order"]]
        return lambda: tgt.pre(arg, order)
    if op == "get_nodes_in_directed_paths":
        s = _mkarg(a["S"], a["cS"])
        t = _mkarg(a["T"], a["cT"])
        return lambda: get_nodes_in_directed_paths(tgt, s, t)
    if op == "are_d_separated":
        va, vb = mkvar(a["a"]), mkvar(a["b"])
        if a.get("bad"):
            cond = _mkarg(a["C"] + [a["bad"]], a["c"])
        elif a["c"] == "none":
            cond = None
        elif a["c"] == "dup-list":
            cond = [mkvar(n) for n in a["C"]] + [mkvar(n) for n in a["C"][:1]]
        else:
            cond = _mkarg(a["C"], a["c"])
        if a["c"] == "gen":
            names = list(a["C"])
            if a.get("sym"):
                return lambda: (are_d_separated(tgt, va, vb, conditions=(mkvar(n) for n in names)),
                                are_d_separated(tgt, vb, va, conditions=(mkvar(n) for n in names)))
            return lambda: (are_d_separated(tgt, va, vb, conditions=(mkvar(n) for n in names)),)
        if a["c"] == "dictkeys":
            cond = {mkvar(n): None for n in a["C"]}.keys()
        if a.get("sym"):
            thunk = lambda: (are_d_separated(tgt, va, vb, conditions=cond), are_d_separated(tgt, vb, va, conditions=cond))  # noqa: E731
        else:
            thunk = lambda: (are_d_separated(tgt, va, vb, conditions=cond),)  # noqa: E731

        def post(val: Any) -> Any:
            # the caller goes on using its own collection: a judgement that merely refers to it would change
            if isinstance(cond, (list, set)):
                cond.clear()
                cond.extend([va]) if isinstance(cond, list) else cond.add(va)
            return ser_result("dsep", val)

        thunk.post = post  # type: ignore[attr-defined]
        return thunk
    raise ValueError(op)


# =========================================================================== the run


class Violation(dict):
    pass


def _apply_steps_model(m: MG, steps: list) -> MG:
    N, D, B = set(m.N), set(m.D), set(m.B)
    for s in steps:
        if s[0] == "n":
            N.add(s[1])
        elif s[0] == "d":
            D.add((s[1], s[2]))
            N.update(s[1:3])
        else:
            B.add(frozenset(s[1:3]))
            N.update(s[1:3])
    return MG(frozenset(N), frozenset(D), frozenset(B))


class CaseRun:
    """Executes one case (all populations)."""

    def __init__(self, case: dict, explicit: bool = False) -> None:
        self.case = case
        self.prop = case["prop"]
        self.explicit = explicit
        self.violations: list[dict] = []
        self.stats: dict[str, Any] = {
            "events": 0,
            "switches": 0,
            "ops": {},
            "faults": {"preempt": 0, "abort": 0, "audit": 0, "evolve": 0, "dup": 0, "reorder": 0},
            "switch_sites": {},
            "abort_sites": {},
            "calls": {},
            "probes": {},
            "interleavings": [],
            "nontrivial": False,
        }
        self.eventlog: list = []
        self.post_got: dict[tuple, tuple] = {}
        self.base_lines: dict[tuple, int] = {}
        self.bad_keys: set = set()
        self.result_digests: dict[str, str] = {}
        self.result_values: dict[str, Any] = {}

    # ------------------------------------------------------------------ model pass

    def model_pass(self) -> None:
        case = self.case
        self.M: list[list[MG]] = []  # M[r][gi] = model of shared graph gi during round r
        cur = [world.world_model(g) for g in case["graphs"]]
        self.M0 = list(cur)
        self.exp: dict[tuple, Any] = {}
        self.res_after: dict[tuple, MG] = {}  # (round, result key) -> model of that returned graph after its owner edited it
        prev_models: dict[tuple, MG] = {}
        for r, rnd in enumerate(case["rounds"]):
            self.M.append(list(cur))
            new_prev: dict[tuple, MG] = {}
            for c in sorted(rnd["scripts"]):
                own: dict[int, MG] = {}
                for k, spec in enumerate(rnd["scripts"][c]):
                    key = (r, c, k)
                    if spec["op"] == "nop":
                        self.exp[key] = None
                        continue
                    if spec["op"] in ID_OPS:
                        q = case["queries"][spec["q"]] if spec["q"] < len(case.get("queries", [])) else None
                        if q is None or q["g"] >= len(cur):
                            self.exp[key] = None
                            continue
                        # a pre-built Identification holds its own copy of the graph taken when it was built
                        # (before round 0); the other entry points look at the graph as it is now
                        m = self.M0[q["g"]] if spec["op"] == "identify" else cur[q["g"]]
                        X, Y = set(q["X"]), set(q["Y"])
                        if not X or not Y or X & Y or not (X | Y) <= m.N or not m.is_acyclic():
                            self.exp[key] = None
                            continue
                        self.exp[key] = ("id", identifiable(m, X, Y), None, m)
                        continue
                    t = spec["t"]
                    if t[0] == "g":
                        m = cur[t[1]] if t[1] < len(cur) else None
                    elif t[0] == "r":
                        m = own.get(t[1])
                    else:  # ["p", r0, c0, k0] result of a previous round
                        m = prev_models.get((t[1], t[2], t[3]))
                    if m is None or not op_valid(spec, m):
                        self.exp[key] = None
                        continue
                    kind, exp, rm = model_op(spec, m)
                    self.exp[key] = (kind, exp, rm, m)
                    if rm is not None:
                        own[k] = rm
                        new_prev[key] = rm
            prev_models.update(new_prev)
            # the owner of a returned graph may go on editing it (it is a graph like any other)
            for rk, steps in rnd.get("evolve_results", []):
                rk = tuple(rk)
                m = prev_models.get(rk)
                if m is None:
                    continue
                m2 = _apply_steps_model(m, steps)
                prev_models[rk] = m2
                self.res_after[(r, rk)] = m2
            # evolve after the round
            for gi, steps in rnd.get("evolve", []):
                if gi >= len(cur):
                    continue
                cur[gi] = _apply_steps_model(cur[gi], steps)
        self.M.append(list(cur))

    # ------------------------------------------------------------------ helpers

    def viol(self, oracle: str, site: str, pred: str, pop: str, **detail: Any) -> None:
        sig = f"{self.prop}/{oracle}/{site}/{pred}"
        self.violations.append(
            {"sig": sig, "oracle": oracle, "site": site, "pred": pred, "pop": pop, "detail": detail}
        )

    def _probe(self, name: str, n: int = 1) -> None:
        p = self.stats["probes"]
        p[name] = p.get(name, 0) + n

    # ------------------------------------------------------------------ populations

    def run(self) -> None:
        self.model_pass()
        base: dict[tuple, Any] | None = None
        for pop in self.case["pops"]:
            res = self.run_pop(pop, base)
            if pop["name"] == "seq":
                base = res
                self.base_lines = self.lines
        # digests of the sequential baseline for the cross-worker history check
        if base is not None:
            self.result_values = {
                f"{r}.{c}.{k}": (v[2][0] if self.prop == "C02" else _dsep_norm(v[2]) if v[1] == "dsep" else v[2])
                for (r, c, k), v in sorted(base.items())
                if v[0] == "ok" and v[3] and v[1] != "list" and v[2] != "badtype"
            }
            self.result_digests = {k: digest(v) for k, v in self.result_values.items()}

    def run_pop(self, pop: dict, base: dict[tuple, Any] | None) -> dict[tuple, Any]:
        case = self.case
        pname = pop["name"]
        self.res_now: dict[tuple, Any] = {}  # canonical value a returned graph must have now (after evolve_results)
        try:
            graphs = [world.build_graph(h) for h in case["histories"]]
        except Exception as e:  # noqa: BLE001 - a public constructor refusing a valid construction history
            bad = next((h for h in case["histories"] if not _builds(h)), case["histories"][0])
            self.viol("O5", "constructor:" + bad["ctor"] + (":pickled" if bad.get("via") else ""),
                      f"raised:{type(e).__name__}", pname, history=bad, msg=str(e)[:200])
            return {}
        for h in case["histories"]:
            f = self.stats["faults"]
            f["reorder"] += 1
            f["ctor:" + h["ctor"]] = f.get("ctor:" + h["ctor"], 0) + 1
            f["dup"] += world.history_dups(h)
        shared_fp: dict[str, Any] = {f"g{i}": graph_fingerprint(g) for i, g in enumerate(graphs)}
        shared_obj: dict[str, Any] = {f"g{i}": g for i, g in enumerate(graphs)}
        flagged: set = set()
        # shared query objects (C02)
        qobjs = []
        for qi, q in enumerate(case.get("queries", [])):
            if q["g"] >= len(graphs):
                qobjs.append(None)
                continue
            tset = {mkvar(n) for n in q["X"]}
            oset = {mkvar(n) for n in q["Y"]}
            try:
                query = Query(outcomes=set(oset), treatments=set(tset))
                ident = Identification(query=query, graph=graphs[q["g"]])
            except Exception as e:  # noqa: BLE001
                qobjs.append(None)
                self.viol("O1", "Identification.__init__", f"raised:{type(e).__name__}", pname, q=q, msg=str(e)[:200])
                continue
            qo = {"tset": tset, "oset": oset, "query": query, "ident": ident}
            qobjs.append(qo)
            shared_obj[f"q{qi}"] = qo
            shared_fp[f"q{qi}"] = query_fingerprint(qo)

        def audit(where: str) -> None:
            self.stats["faults"]["audit"] += 1
            for name, obj in shared_obj.items():
                if name in flagged:
                    continue
                fp = graph_fingerprint(obj) if name[0] == "g" else query_fingerprint(obj)
                if fp != shared_fp[name] and self.prop == "C04":
                    # C04 says nothing about the caller's graph object; a modification shows up as a wrong verdict
                    flagged.add(name)
                    self._probe("shared-graph-modified(not-judged)")
                    continue
                if fp != shared_fp[name]:
                    flagged.add(name)
                    oracle = "O2" if self.prop == "C14" else "O3"
                    self.viol(
                        oracle,
                        "shared-" + ("graph" if name[0] == "g" else "query"),
                        "modified",
                        pname,
                        obj=name,
                        where=where,
                        inflight=sorted(inflight.values()),
                        before=fingerprint_public(shared_fp[name]) if name[0] == "g" else shared_fp[name][1],
                        after=fingerprint_public(fp) if name[0] == "g" else fp[1],
                    )

        inflight: dict[str, str] = {}
        results: dict[tuple, Any] = {}
        values: dict[tuple, Any] = {}  # live result objects (graphs) for chaining / aliasing checks
        self.lines: dict[tuple, int] = {}
        rng = random.Random(f"pop:{case['seed']}:{case['scenario']}:{case['worker']}:{pname}")
        nrounds = len(case["rounds"])
        # bounded liveness in logical time, scaled with the size of the input (a 1 200-node chain legitimately needs
        # a few hundred calls per node)
        from kernel import STEP_BUDGET

        nmax = max([len(g["nodes"]) for g in case["graphs"]] + [0])
        # measured on the pinned tree: <= 400 calls per node for the operations the deep scenarios use (they are
        # chosen to be linear in the chain length), so 40 000 per node is a 50-100-fold margin (measured worst case over 150 generator seeds: 696 calls per node for ID, 381 for are_d_separated, 53 for the surgery operations) and still finite: an
        # operation that turns quadratic on a 1 200-node chain is reported as a liveness violation, not waited for
        budget = STEP_BUDGET + 40_000 * nmax
        for r, rnd in enumerate(case["rounds"]):
            scripts = rnd["scripts"]
            # ---- scheduler for this round
            if self.explicit or "schedule" in pop:
                sched = Sched(
                    mode="explicit",
                    explicit=(pop.get("schedule") or {}).get(str(r), []),
                    aborts=(pop.get("aborts") or {}).get(str(r), []),
                    trace_nx=pop.get("trace_nx", False),
                    audit=audit,
                    notrace=pop.get("notrace", False),
                    step_budget=budget,
                )
            else:
                aborts = []
                if pop.get("n_aborts"):
                    have_lines = base is not None
                    cand = [
                        (c, k)
                        for c in sorted(scripts)
                        for k in range(len(scripts[c]))
                        if (self.base_lines.get((r, c, k), 0) > 0 if have_lines else scripts[c][k]["op"] != "nop")
                    ]
                    for _ in range(min(len(cand), rng.randint(1, pop["n_aborts"]))):
                        c, k = cand.pop(rng.randrange(len(cand)))
                        exc = rng.choice(("mem", "int", "rt"))
                        if rng.random() < 0.33:
                            aborts.append({"c": c, "o": k, "after": rng.randint(1, 20), "exc": exc})
                        else:
                            # a population that runs before the baseline does not know how long the op is
                            L = self.base_lines[(r, c, k)] if have_lines else rng.choice((15, 40, 100, 250))
                            aborts.append({"c": c, "o": k, "l": rng.randint(1, L), "exc": exc})
                total = sum(v for (rr, _, _), v in getattr(self, "base_lines", {}).items() if rr == r)
                sched = Sched(
                    mode="prng",
                    seed=f"{case['seed']}:{case['scenario']}:{case['worker']}:{pname}:{r}",
                    policy=pop.get("policy", "uniform"),
                    p=pop.get("p", 0.02),
                    pct_d=pop.get("pct_d", 3),
                    pct_k=max(10, total),
                    aborts=aborts,
                    trace_nx=pop.get("trace_nx", False),
                    audit=audit,
                    notrace=pop.get("notrace", False),
                    step_budget=budget,
                )

            def make_body(c: str, script: list) -> Callable[[Sched, str], None]:
                def body(s: Sched, name: str) -> None:
                    for k, spec in enumerate(script):
                        key = (r, c, k)
                        e = self.exp.get(key)
                        if e is None:
                            results[key] = ("invalid",)
                            continue
                        thunk = self.prepare(spec, graphs, qobjs, values, r, c)
                        if thunk is None:
                            results[key] = ("skipped",)
                            continue
                        inflight[c] = spec["op"]
                        status, val = s.run_op(k, thunk)
                        inflight.pop(c, None)
                        if status == "ok" and hasattr(thunk, "post") and _type_ok("dsep", val):
                            self.post_got[key] = (ser_result("dsep", val), thunk.post(val))
                        self.lines[key] = s.states[c].line
                        self.finish_op(pname, key, spec, e, status, val, results, values, base)
                        if status == "abort":
                            self.stats["faults"]["abort"] += 1
                            audit(f"after abort of {c}#{k} ({spec['op']})")
                        elif (spec.get("a") or {}).get("bad"):
                            audit(f"after bad-argument call {c}#{k} ({spec['op']}: {status})")
                return body

            bodies = {c: make_body(c, scripts[c]) for c in sorted(scripts)}
            if bodies:
                sched.run(bodies)
            audit(f"end of round {r}")
            # ---- accounting
            st = self.stats
            st["events"] += sched.events
            st["switches"] += sched.switches
            st["hot_points"] = st.get("hot_points", 0) + sched.hot_points
            st["faults"]["lock-wait"] = st["faults"].get("lock-wait", 0) + sched.blocked_yields
            st["faults"]["preempt"] += sched.switches
            for k2, v2 in sched.switch_sites.items():
                st["switch_sites"][k2] = st["switch_sites"].get(k2, 0) + v2
            for k2, v2 in sched.abort_sites.items():
                st["abort_sites"][k2] = st["abort_sites"].get(k2, 0) + v2
            for k2, v2 in sched.calls.items():
                st["calls"][k2] = st["calls"].get(k2, 0) + v2
            inside = [x for x in sched.log if x[1] not in ("begin", "end") and x[2] > 0]
            if inside or sched.fired_aborts:
                st["nontrivial"] = True
            if inside:
                st["interleavings"].append(digest([pname, r, sched.log]))
            self.eventlog.append([pname, r, sched.schedule(), sched.fired_aborts, sched.events])
            pop.setdefault("_rec_schedule", {})[str(r)] = sched.schedule()
            pop.setdefault("_rec_aborts", {})[str(r)] = [
                {"c": a[0], "o": a[1], "l": a[2], "exc": a[3]} for a in sched.fired_aborts
            ]
            # ---- O4a: results of earlier rounds unaffected by anything since (incl. evolve)
            self.check_old_results(pname, values, upto_round=r)
            # ---- the owner of a returned graph edits it (quiescent); nobody else may notice
            for rk, steps in rnd.get("evolve_results", []):
                rk = tuple(rk)
                val = values.get(rk)
                m2 = self.res_after.get((r, rk))
                if val is None or m2 is None:
                    continue
                try:
                    world.apply_steps(val, steps)
                except Exception as e:  # noqa: BLE001 - e.g. a frozen networkx view of the receiver
                    self.viol("O4", self._opname(rk), f"result-not-mutable:{type(e).__name__}", pname, key=list(rk))
                    values.pop(rk, None)
                    continue
                self.res_now[rk] = m2.canonical()
                self.stats["faults"]["evolve"] += 1
                self._probe("evolve-of-returned-graph")
                audit(f"after editing returned graph {list(rk)}")
                self.check_old_results(pname, values, upto_round=r)
            # ---- evolve (quiescent)
            if r < nrounds - 1 or rnd.get("evolve"):
                for gi, steps in rnd.get("evolve", []):
                    if gi < len(graphs):
                        try:
                            world.apply_steps(graphs[gi], steps)
                        except Exception as e:  # noqa: BLE001 - the public add_* API refusing a legal edit
                            self.viol("O5", "evolve", f"raised:{type(e).__name__}", pname, graph=gi, steps=steps,
                                      msg=str(e)[:200])
                            return results
                        shared_fp[f"g{gi}"] = graph_fingerprint(graphs[gi])
                        self.stats["faults"]["evolve"] += 1
                        self._probe("evolve-after-result-returned" if values else "evolve")
                self.check_old_results(pname, values, upto_round=r)
        # ---- O4b: mutate every returned graph; shared graphs and other results must not notice
        if self.prop == "C14":
            self.sentinel_check(pname, values, audit)
        return results

    # ------------------------------------------------------------------ op plumbing

    def prepare(self, spec: dict, graphs: list, qobjs: list, values: dict, r: int, c: str) -> Callable | None:
        if spec["op"] in ID_OPS:
            qo = qobjs[spec["q"]]
            if qo is None:
                return None
            g = graphs[self.case["queries"][spec["q"]]["g"]]
            if spec["op"] == "identify_outcomes":
                form = spec.get("form", "sets")
                t = qo["tset"]
                o = qo["oset"]
                if form == "single-t" and len(t) == 1:
                    t = next(iter(t))
                if form == "single-o" and len(o) == 1:
                    o = next(iter(o))
                return lambda: ("idres", identify_outcomes(g, t, o))
            if spec["op"] == "identify":
                ident = qo["ident"]
                return lambda: ("idres", identify(ident))
            query = qo["query"]
            # the other public ways of building an Identification, chosen by a hash-seed independent digest of the spec
            form = sum(map(ord, f"{self.case['seed']}:{self.case['scenario']}:{r}:{c}:{spec['q']}")) % 3
            if form == 1:
                t_, o_ = set(qo["tset"]), set(qo["oset"])
                return lambda: ("idres", identify(Identification.from_parts(outcomes=o_, treatments=t_, graph=g)))
            if form == 2:
                from y0.dsl import P as _P

                return lambda: ("idres", identify(Identification(query=query, graph=g, estimand=_P(g.nodes()))))
            return lambda: ("idres", identify(Identification(query=query, graph=g)))
        t = spec["t"]
        if t[0] == "g":
            tgt = graphs[t[1]]
        elif t[0] == "r":
            tgt = values.get((r, c, t[1]))
        else:
            tgt = values.get((t[1], t[2], t[3]))
        if tgt is None:
            return None
        return prepare_surgery(spec, tgt)

    def finish_op(
        self,
        pname: str,
        key: tuple,
        spec: dict,
        e: tuple,
        status: str,
        val: Any,
        results: dict,
        values: dict,
        base: dict | None,
    ) -> None:
        op = spec["op"]
        ops = self.stats["ops"]
        ops[op] = ops.get(op, 0) + 1
        kind, exp, rm, m = e
        judged = op in JUDGED[self.prop]
        if kind == "badarg":
            # only the receiver is judged (audit right away); the outcome itself is whatever it is
            results[key] = ("badarg", status if status != "exc" else "exc:" + type(val).__name__)
            self.stats["faults"]["badarg"] = self.stats["faults"].get("badarg", 0) + 1
            self._probe(f"badarg:{op}:{status}")
            return
        if status == "abort":
            results[key] = ("abort",)
            return
        if status == "budget":
            results[key] = ("budget",)
            if judged:
                self.viol("O1", op, "liveness-step-budget", pname, key=list(key), spec=spec)
            return
        if op in ID_OPS:
            self.finish_id(pname, key, spec, e, status, val, results, base, judged)
            return
        if status == "exc":
            results[key] = ("exc", type(val).__name__, str(val)[:200], judged)
            if base is None:
                if judged:
                    self.viol("O1", op, f"raised:{type(val).__name__}", pname, key=list(key), spec=spec, msg=str(val)[:300])
            else:
                b = base.get(key)
                if b is not None and b[0] == "ok":
                    self.viol(
                        "O3" if self.prop == "C14" else "O4",
                        op,
                        f"raised-under-interleaving:{type(val).__name__}",
                        pname,
                        key=list(key),
                        spec=spec,
                        msg=str(val)[:300],
                    )
            return
        # status ok
        typed_ok = _type_ok(kind, val)
        if not typed_ok:
            results[key] = ("ok", kind, "badtype", judged)
            if judged and base is None:
                self.viol("O1", op, f"result-type:{type(val).__name__}", pname, key=list(key), spec=spec)
            return
        got = ser_result(kind, val)
        results[key] = ("ok", kind, got, judged)
        self._scribble(kind, val)
        if kind == "graph" and key not in self.bad_keys:
            values[key] = val
        if base is None:
            self.probes_for(spec, m)
            if not judged:
                return
            # ---- O1: reference model
            if kind == "dsep":
                self.judge_dsep(pname, key, spec, got, exp, m)
                return
            if kind == "list":
                why = check_list_result(exp, got, m)
                if why:
                    self.viol("O1", op, why, pname, key=list(key), spec=spec, got=got, model=m.canonical())
            elif got != exp:
                self.viol(
                    "O1", op, diff_predicate(kind, got, exp), pname, key=list(key), spec=spec, got=got, expected=exp,
                    model=m.canonical(),
                )
                # do not chain on / re-judge a result that is already known to be wrong (no cascades)
                self.bad_keys.add(key)
                values.pop(key, None)
                return
            # ---- "returns a new graph": identity
            if kind == "graph":
                # "returns a new graph" is checked behaviourally in sentinel_check; here O6 (__eq__)
                self.check_eq(pname, key, spec, val, rm)
        else:
            b = base.get(key)
            if b is None or b[0] != "ok":
                return
            if kind == "dsep" and _dsep_norm(b[2]) == _dsep_norm(got):
                return  # same verdicts, same faithful records (the order of fields inside a record is not judged)
            if b[2] != got:
                self.viol(
                    "O3" if self.prop == "C14" else "O4",
                    op,
                    "differs-from-sequential:" + diff_predicate(kind, got, b[2]) if kind != "list" else "differs-from-sequential:order",
                    pname,
                    key=list(key),
                    spec=spec,
                    got=got,
                    sequential=b[2],
                )
                # a result already reported as wrong is not re-judged by the aliasing oracles (no cascades)
                values.pop(key, None)

    def finish_id(
        self, pname: str, key: tuple, spec: dict, e: tuple, status: str, val: Any, results: dict, base: dict | None, judged: bool
    ) -> None:
        op = spec["op"]
        _, exp_ident, _, m = e
        if status == "exc":
            if isinstance(val, Unidentifiable) and op != "identify_outcomes":
                verdict, est = "unident", None
            else:
                results[key] = ("exc", type(val).__name__, str(val)[:200], judged)
                if base is None:
                    self.viol(
                        "O1", op, f"raised:{type(val).__name__}", pname, key=list(key), spec=spec,
                        q=self.case["queries"][spec["q"]], msg=str(val)[:300], model=m.canonical(),
                    )
                else:
                    b = base.get(key)
                    if b is not None and b[0] == "ok":
                        self.viol("O4", op, f"raised-under-interleaving:{type(val).__name__}", pname,
                                  key=list(key), spec=spec, msg=str(val)[:300])
                return
        else:
            v = val[1]
            if v is None and op == "identify_outcomes":
                verdict, est = "unident", None
            elif isinstance(v, Expression):
                verdict, est = "ident", ser_expr(v)
            else:
                results[key] = ("ok", "id", "badtype", judged)
                if base is None:
                    self.viol("O1", op, f"result-type:{type(v).__name__}", pname, key=list(key), spec=spec)
                return
        results[key] = ("ok", "id", [verdict, est], judged)
        if base is None:
            self._probe(f"ID.verdict.{verdict}")
            want = "ident" if exp_ident else "unident"
            if verdict != want:
                self.viol(
                    "O2", op, f"verdict-{verdict}-model-{want}", pname, key=list(key), spec=spec,
                    q=self.case["queries"][spec["q"]], model=m.canonical(),
                )
        else:
            b = base.get(key)
            if b is None or b[0] != "ok":
                return
            if b[2][0] != verdict:
                self.viol("O4", op, "verdict-differs-from-sequential", pname, key=list(key), spec=spec,
                          got=verdict, sequential=b[2][0])
            elif b[2][1] != est:
                self.viol("O4", op, "estimand-differs-from-sequential", pname, key=list(key), spec=spec,
                          got=est, sequential=b[2][1])

    def _scribble(self, kind: str, val: Any) -> None:
        """The caller owns what it was given: it empties / extends a returned container (already serialised).

        If the operation handed out one of its own internal objects (a memoised set, the receiver's own
        structure), later operations go wrong and the model / baseline oracles report them."""
        try:
            if kind in ("set", "setofsets") and isinstance(val, set):
                val.clear()
                val.add(mkvar(SENTINEL) if kind == "set" else frozenset([mkvar(SENTINEL)]))
                self._probe("scribbled-on-returned-set")
            elif kind == "list" and isinstance(val, list):
                val.clear()
                val.append(mkvar(SENTINEL))
                self._probe("scribbled-on-returned-list")
            elif kind == "nxgraph":
                val.clear()
                val.add_edge(mkvar(SENTINEL), mkvar(SENTINEL + "2"))
                self._probe("scribbled-on-returned-nxgraph")
        except Exception:  # noqa: BLE001 - immutable results (frozenset, tuple, frozen views) are fine
            self._probe("returned-container-immutable")

    def judge_dsep(self, pname: str, key: tuple, spec: dict, got: list, exp: dict, m: MG) -> None:
        """C04 in-run oracles: O1 verdict = m-separation, O2 symmetric in (a, b), O3 faithful canonical record."""
        op = spec["op"]
        self._probe("dsep.model." + ("separated" if exp["sep"] else "connected"))
        if spec["a"]["C"] and any(set(e) & set(spec["a"]["C"]) for e in m.B):
            self._probe("dsep.conditioned-on-bidirected-endpoint")
        for j in got:
            if j["sep"] != exp["sep"]:
                self.viol("O1", op, "verdict-%s-model-%s" % (("separated" if j["sep"] else "connected"),
                                                            ("separated" if exp["sep"] else "connected")),
                          pname, key=list(key), spec=spec, got=j, model=m.canonical())
                return
            if j["truth"] != j["sep"]:
                self.viol("O3", op, "bool-differs-from-separated-field", pname, key=list(key), spec=spec, got=j)
                return
            # the record must be *faithful*: it names the two queried nodes and the conditioned set.  Whether it is
            # also in the library's canonical order is not part of C04's statement and is only counted.
            if {j["left"], j["right"]} != {exp["left"], exp["right"]} or sorted(set(j["cond"])) != exp["cond"]:
                self.viol("O3", op, "record-fields-differ-from-query", pname, key=list(key), spec=spec, got=j, expected=exp)
                return
            if j["canonical"] is not True or (j["left"], j["right"], j["cond"]) != (exp["left"], exp["right"], exp["cond"]):
                self._probe("dsep.record-not-in-canonical-order(not-judged)")
        if len(got) == 2 and got[0]["sep"] != got[1]["sep"]:
            self.viol("O2", op, "asymmetric-in-a-b", pname, key=list(key), spec=spec, got=got)
        pg = self.post_got.get(key)
        if pg is not None and pg[0] != pg[1]:
            self.viol("O3", op, "record-changes-when-caller-edits-its-collection", pname, key=list(key), spec=spec,
                      before=pg[0], after=pg[1])

    def check_eq(self, pname: str, key: tuple, spec: dict, val: NxMixedGraph, rm: MG) -> None:
        """O6: the __eq__ everybody relies on agrees with the model."""
        try:
            same = world.graph_from_model(rm)
            if not (val == same) or not (same == val):
                self.viol("O6", "__eq__", "unequal-to-equal-graph", pname, key=list(key), spec=spec, model=rm.canonical())
            # perturbations
            N, D, B = sorted(rm.N), sorted(rm.D), sorted(rm.B, key=sorted)
            perturbed = []
            perturbed.append(MG(rm.N | {SENTINEL}, rm.D, rm.B))
            if D:
                perturbed.append(MG(rm.N, rm.D - {D[0]}, rm.B))
            if B:
                perturbed.append(MG(rm.N, rm.D, rm.B - {B[0]}))
            if len(N) >= 2:
                extra = (N[0], N[1])
                if extra not in rm.D:
                    perturbed.append(MG(rm.N, rm.D | {extra}, rm.B))
                fe = frozenset(extra)
                if fe not in rm.B:
                    perturbed.append(MG(rm.N, rm.D, rm.B | {fe}))
            for pm in perturbed:
                other = world.graph_from_model(pm)
                if val == other or other == val:
                    self.viol("O6", "__eq__", "equal-to-different-graph", pname, key=list(key), spec=spec,
                              model=rm.canonical(), other=pm.canonical())
                    break
        except Exception as e:  # noqa: BLE001
            self.viol("O6", "__eq__", f"raised:{type(e).__name__}", pname, key=list(key), spec=spec, msg=str(e)[:200])

    def check_old_results(self, pname: str, values: dict, upto_round: int) -> None:
        if self.prop != "C14":
            return
        for key, val in sorted(values.items()):
            e = self.exp.get(key)
            if e is None or e[0] != "graph":
                continue
            got = graph_canonical(val)
            want = self.res_now.get(key, e[1])
            if got != want:
                self.viol(
                    "O4", self.case["rounds"][key[0]]["scripts"][key[1]][key[2]]["op"], "returned-graph-changed-later",
                    pname, key=list(key), after_round=upto_round, got=got, expected=want,
                )
                values.pop(key)

    def sentinel_check(self, pname: str, values: dict, audit: Callable[[str], None]) -> None:
        keys = sorted(k for k, v in values.items() if isinstance(v, NxMixedGraph))
        s1, s2 = mkvar(SENTINEL), mkvar(SENTINEL + "2")
        for i, key in enumerate(keys):
            g = values[key]
            try:
                g.add_directed_edge(s1, s2)
                g.add_undirected_edge(s1, s2)
            except Exception as e:  # noqa: BLE001 - e.g. a frozen networkx view of the receiver
                self.viol("O4", self._opname(key), f"result-not-mutable:{type(e).__name__}", pname, key=list(key))
                continue
            n_before = len(self.violations)
            audit(f"after mutating result {list(key)}")
            if len(self.violations) > n_before:
                self.violations[-1]["sig"] = f"{self.prop}/O4/{self._opname(key)}/result-aliases-receiver"
                self.violations[-1]["oracle"] = "O4"
                self.violations[-1]["site"] = self._opname(key)
                self.violations[-1]["pred"] = "result-aliases-receiver"
            for other in keys[i + 1 :]:
                e = self.exp.get(other)
                if e is None:
                    continue
                if graph_canonical(values[other]) != self.res_now.get(other, e[1]):
                    self.viol("O4", self._opname(key), "result-aliases-other-result", pname, key=list(key), other=list(other))
                    break

    def _opname(self, key: tuple) -> str:
        return self.case["rounds"][key[0]]["scripts"][key[1]][key[2]]["op"]

    def probes_for(self, spec: dict, m: MG) -> None:
        covered = {x for e in m.D for x in e} | {x for e in m.B for x in e}
        op = spec["op"]
        if m.N - covered:
            self._probe(f"{op}:receiver-has-isolated-node")
        dcov = {x for e in m.D for x in e}
        bionly = (covered - dcov)
        S = set(spec["a"].get("S", []))
        if S & bionly:
            self._probe(f"{op}:S-has-bidirected-only-node")
        if not m.is_acyclic():
            self._probe(f"{op}:cyclic-receiver")
        if spec["t"][0] != "g":
            self._probe(f"{op}:chained-target")
        if "S" in spec["a"] and not S:
            self._probe(f"{op}:empty-S")
        if "S" in spec["a"] and S == set(m.N) and S:
            self._probe(f"{op}:S-is-all-nodes")


def _dsep_norm(got: Any) -> Any:
    """What C04 states about a judgement: the verdict, for which two nodes, given which set."""
    try:
        return [{"sep": j["sep"], "nodes": sorted([j["left"], j["right"]]), "cond": sorted(set(j["cond"]))} for j in got]
    except Exception:  # noqa: BLE001
        return got


def _builds(h: dict) -> bool:
    try:
        world.build_graph(h)
        return True
    except Exception:  # noqa: BLE001
        return False


def _type_ok(kind: str, val: Any) -> bool:
    if kind == "graph":
        return isinstance(val, NxMixedGraph)
    if kind == "nxgraph":
        return isinstance(val, nx.Graph) and not val.is_directed()
    if kind == "set":
        return isinstance(val, (set, frozenset))
    if kind == "setofsets":
        return isinstance(val, (set, frozenset, list)) and all(isinstance(x, (set, frozenset)) for x in val)
    if kind == "list":
        return isinstance(val, (list, tuple))
    if kind == "dsep":
        return isinstance(val, tuple) and all(isinstance(j, DSeparationJudgement) for j in val)
    return True


def query_fingerprint(qo: dict) -> tuple:
    """(identity part, content part) of the shared query objects."""
    q: Query = qo["query"]
    ident: Identification = qo["ident"]
    ids = (
        id(q.treatments), id(q.outcomes), id(q.conditions), id(ident.query), id(ident.graph), id(ident.estimand),
    )
    content = [
        ser_vars_sorted(qo["tset"]),
        ser_vars_sorted(qo["oset"]),
        ser_vars_sorted(q.treatments),
        ser_vars_sorted(q.outcomes),
        ser_vars_sorted(q.conditions),
        ser_expr(ident.estimand),
        fingerprint_public(graph_fingerprint(ident.graph)),
        ident.query is q,
    ]
    return (ids, content, graph_fingerprint(ident.graph)[:2])


def explicit_case(case: dict) -> dict:
    """The case with every population's recorded schedule and fired aborts made explicit (replay form)."""
    import copy

    out = copy.deepcopy({k: v for k, v in case.items()})
    for pop in out["pops"]:
        pop["schedule"] = pop.pop("_rec_schedule", pop.get("schedule", {}))
        pop["aborts"] = pop.pop("_rec_aborts", pop.get("aborts", {}))
        for k in ("policy", "p", "pct_d", "n_aborts"):
            pop.pop(k, None)
    return out


def run_case(case: dict, explicit: bool = False) -> CaseRun:
    cr = CaseRun(case, explicit=explicit)
    try:
        cr.run()
    except HarnessError:
        raise
    return cr
