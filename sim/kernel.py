"""y0sim kernel: a seeded baton scheduler for synchronous callers, with abort injection.

Callers are real threads, but exactly one holds the baton at any time; the OS never
chooses who runs.  Pre-emption points are the 'line' trace events of frames whose code
lives under y0/ (optionally also networkx/classes/).  Every decision is either drawn
from the scheduler PRNG (and recorded) or read from an explicit schedule (replay), so
one (seed, hash seed, code) triple is one execution.
"""

from __future__ import annotations

import dis
import os
import random
import sys
import threading
from typing import Any, Callable

import simlock

simlock.install()  # before y0 is imported: module-level locks of the code under test become SimLocks

import networkx  # noqa: E402
import y0  # noqa: E402

Y0_DIR = os.path.dirname(os.path.abspath(y0.__file__)) + os.sep
NX_CLASSES_DIR = os.path.join(os.path.dirname(os.path.abspath(networkx.__file__)), "classes") + os.sep

STEP_BUDGET = 200_000


class SimAbortMemory(MemoryError):
    """Injected abort (allocation failure at an arbitrary line)."""


class SimAbortInterrupt(KeyboardInterrupt):
    """Injected abort (asynchronous interrupt at an arbitrary line)."""


class SimAbortRuntime(RuntimeError):
    """Injected abort (generic failure of a callee at an arbitrary line)."""


ABORT_TYPES = {
    "mem": SimAbortMemory,
    "int": SimAbortInterrupt,
    "rt": SimAbortRuntime,
}
ABORT_CLASSES = tuple(ABORT_TYPES.values())


class StepBudgetExceeded(Exception):
    """An operation executed more than STEP_BUDGET line events (bounded liveness)."""


class HarnessError(Exception):
    """Something went wrong in the simulator itself (never reported as a violation)."""


class _CallerState:
    __slots__ = ("name", "op", "line", "since_resume", "resumed", "prev_hot", "pending_abort")

    def __init__(self, name: str) -> None:
        self.name = name
        self.op = -1
        self.line = 0
        self.since_resume = 0
        self.resumed = False
        self.prev_hot = False
        self.pending_abort: str | None = None


# Lines that write state other callers may see: attribute / global stores (a memo field on a graph, a
# module-level holder) and item stores or deletions.  Policy 'hot' pre-empts preferentially right
# before and right after such a line -- the instants at which a half-updated shared structure is visible.
_HOT_OPS = {"STORE_ATTR", "STORE_GLOBAL", "DELETE_ATTR", "DELETE_GLOBAL", "STORE_SUBSCR", "DELETE_SUBSCR"}
_hot_cache: dict[Any, frozenset] = {}


def hot_lines(code: Any) -> frozenset:
    hl = _hot_cache.get(code)
    if hl is None:
        lines = set()
        cur = None
        for ins in dis.get_instructions(code):
            if ins.starts_line is not None:
                cur = ins.starts_line
            if ins.opname in _HOT_OPS and cur is not None:
                lines.add(cur)
        hl = frozenset(lines)
        _hot_cache[code] = hl
    return hl


# CPython re-emits a 'line' event for the line of a `with` statement when the block is left, *after* the
# protected region has ended and *before* __exit__ is called.  The interpreter itself never delivers an
# asynchronous exception there (bpo-29988: the eval breaker is not checked between the end of the body and the
# call of __exit__), so an abort injected at that event would be a fault no deployment can meet -- it would
# leak every lock taken with `with lock:`.  Aborts that fall on such an event are postponed to the next one.
_with_cache: dict[Any, dict] = {}


def at_with_exit(frame: Any) -> bool:
    code = frame.f_code
    d = _with_cache.get(code)
    if d is None:
        d = {}
        cur = None
        for ins in dis.get_instructions(code):
            if ins.starts_line is not None:
                cur = ins.starts_line
            if ins.opname in ("BEFORE_WITH", "BEFORE_ASYNC_WITH") and cur is not None:
                d.setdefault(cur, ins.offset)
        _with_cache[code] = d
    off = d.get(frame.f_lineno)
    return off is not None and frame.f_lasti > off


class Sched:
    """One simulated run of several callers."""

    def __init__(
        self,
        *,
        mode: str,  # 'prng' | 'explicit'
        seed: str = "",
        policy: str = "uniform",  # 'seq' | 'uniform' | 'pct'
        p: float = 0.02,
        pct_d: int = 3,
        pct_k: int = 1000,
        explicit: list | None = None,
        aborts: list | None = None,
        trace_nx: bool = False,
        audit: Callable[[str], None] | None = None,
        audit_p: float = 0.25,
        step_budget: int = STEP_BUDGET,
        notrace: bool = False,
    ) -> None:
        self.mode = mode
        self.policy = policy if mode == "prng" else "explicit"
        self.p = p
        self.rng = random.Random(f"sched:{seed}")
        self.audit_rng = random.Random(f"audit:{seed}")
        self.trace_nx = trace_nx
        self.notrace = notrace  # sequential sweep populations: no pre-emption points inside operations
        self.audit = audit
        self.audit_p = audit_p
        self.step_budget = step_budget
        self.cv = threading.Condition(simlock.REAL_RLOCK())
        self.blocked_yields = 0
        self.current: str | None = None
        self.live: list[str] = []
        self.states: dict[str, _CallerState] = {}
        self.tl = threading.local()
        self.log: list[list] = []  # recorded decisions == explicit schedule
        self.events = 0
        self.switches = 0
        self.switch_sites: dict[str, int] = {}
        self.fired_aborts: list[list] = []
        self.abort_sites: dict[str, int] = {}
        self.harness_error: BaseException | None = None
        self.done_evt = threading.Event()
        self._file_ok: dict[str, bool] = {}
        self.explicit: dict[tuple, str] = {}
        for c, o, ln, to in explicit or []:
            self.explicit[(c, o, ln)] = to
        # aborts: {"c","o","l","exc"} = at the l-th line event of op o of caller c;
        #         {"c","o","after":k,"exc"} = k line events after caller c is next resumed inside op o
        self.abort_at: dict[tuple, str] = {}
        self.abort_dyn: dict[tuple, tuple] = {}
        for a in aborts or []:
            if "l" in a:
                self.abort_at[(a["c"], a["o"], a["l"])] = a["exc"]
            else:
                self.abort_dyn[(a["c"], a["o"])] = (a["after"], a["exc"])
        self.calls: dict[str, int] = {}
        self.hot_points = 0
        # PCT state
        self.pct_prio: dict[str, float] = {}
        self.pct_change: set[int] = set()
        if self.policy == "pct":
            self.pct_change = {self.rng.randrange(1, max(2, pct_k)) for _ in range(pct_d)}
        self.pct_low = 0.0

    # ------------------------------------------------------------------ running

    def run(self, bodies: dict[str, Callable[["Sched", str], None]], wall_timeout: float = 120.0) -> None:
        """Run the given caller bodies to completion under the scheduler."""
        names = sorted(bodies)
        self.live = list(names)
        self.states = {n: _CallerState(n) for n in names}
        if self.policy == "pct":
            for n in names:
                self.pct_prio[n] = 1.0 + self.rng.random()
        threads = [
            threading.Thread(target=self._body, args=(n, bodies[n]), name=f"caller-{n}", daemon=True)
            for n in names
        ]
        for t in threads:
            t.start()
        first = self._pick_next(None, "begin")
        with self.cv:
            self.current = first
            self.cv.notify_all()
        if not self.done_evt.wait(wall_timeout):
            raise HarnessError("simulated run did not finish within wall timeout")
        for t in threads:
            t.join(5.0)
        if self.harness_error is not None:
            raise HarnessError(f"caller body raised: {self.harness_error!r}") from self.harness_error

    def block_yield(self, owner: str | None, spins: int) -> None:
        """The running caller is blocked on a lock of the code under test: let the holder (else anybody) run."""
        st: _CallerState = self.tl.state
        me = st.name
        others = [n for n in self.live if n != me]
        if not others:
            raise simlock.SimDeadlock("blocked on a lock that no live caller can release")
        if spins > 50_000:
            raise StepBudgetExceeded
        to = owner if owner in others else others[spins % len(others)]
        self.blocked_yields += 1
        with self.cv:
            self.current = to
            self.cv.notify_all()
            while self.current != me:
                self.cv.wait()

    def _body(self, name: str, body: Callable[["Sched", str], None]) -> None:
        self.tl.state = self.states[name]
        simlock.CURRENT.sched = self
        simlock.CURRENT.name = name
        with self.cv:
            while self.current != name:
                self.cv.wait()
        try:
            body(self, name)
        except BaseException as e:  # noqa: BLE001 - must never leave the baton dangling
            sys.settrace(None)
            self.harness_error = e
        finally:
            simlock.CURRENT.sched = None
            simlock.CURRENT.name = None
            self._finish(name)

    def _finish(self, name: str) -> None:
        self.live.remove(name)
        if not self.live:
            self.done_evt.set()
            return
        nxt = self._pick_next(name, "end")
        with self.cv:
            self.current = nxt
            self.cv.notify_all()

    def _pick_next(self, who: str | None, what: str) -> str:
        key = (who or "", what, 0)
        if self.mode == "explicit":
            to = self.explicit.get(key)
            if to not in self.live:
                to = self.live[0]
        elif self.policy == "seq":
            to = self.live[0]
        elif self.policy == "pct":
            to = max(self.live, key=lambda n: (self.pct_prio[n], n))
        else:
            to = self.live[self.rng.randrange(len(self.live))]
        self.log.append([key[0], key[1], 0, to])
        return to

    # ------------------------------------------------------------------ operations

    def run_op(self, idx: int, fn: Callable[[], Any]) -> tuple[str, Any]:
        """Execute one operation of the current caller under tracing.

        Returns ('ok', value) | ('abort', kind) | ('exc', exception) | ('budget', None).
        """
        st: _CallerState = self.tl.state
        st.op = idx
        st.line = 0
        st.resumed = False
        st.pending_abort = None
        self._point(None)  # op start is a pre-emption point (line 0)
        # untraced (sweep) operations still get a liveness bound: function calls are counted instead of lines
        sys.settrace(self._gcount if self.notrace else self._gtrace)
        try:
            try:
                val = fn()
            finally:
                sys.settrace(None)
            return ("ok", val)
        except ABORT_CLASSES as e:
            return ("abort", type(e).__name__)
        except StepBudgetExceeded:
            return ("budget", None)
        except BaseException as e:  # noqa: BLE001 - SystemExit / KeyboardInterrupt raised by the code under test
            return ("exc", e)      # are outcomes of the operation too (the injected aborts were handled above)

    def _traced_file(self, fn: str) -> bool:
        ok = self._file_ok.get(fn)
        if ok is None:
            ok = fn.startswith(Y0_DIR) or (self.trace_nx and fn.startswith(NX_CLASSES_DIR))
            self._file_ok[fn] = ok
        return ok

    def _gcount(self, frame: Any, event: str, arg: Any) -> Any:
        st: _CallerState = self.tl.state
        st.line += 1
        if st.line > self.step_budget:
            raise StepBudgetExceeded
        return None

    def _gtrace(self, frame: Any, event: str, arg: Any) -> Any:
        if event == "call" and self._traced_file(frame.f_code.co_filename):
            nm = frame.f_code.co_name
            self.calls[nm] = self.calls.get(nm, 0) + 1
            return self._ltrace
        return None

    def _ltrace(self, frame: Any, event: str, arg: Any) -> Any:
        if event == "line":
            self._point(frame)
        return self._ltrace

    def _site(self, frame: Any) -> str:
        if frame is None:
            return "<op-start>"
        co = frame.f_code
        return f"{os.path.basename(co.co_filename)}:{co.co_name}"

    def _point(self, frame: Any) -> None:
        st: _CallerState = self.tl.state
        if frame is not None:
            st.line += 1
            st.since_resume += 1
            self.events += 1
            if st.line > self.step_budget:
                raise StepBudgetExceeded
            if self.abort_at or self.abort_dyn or st.pending_abort:
                kind = self.abort_at.get((st.name, st.op, st.line)) or st.pending_abort
                if kind is None and st.resumed and self.abort_dyn:
                    dyn = self.abort_dyn.get((st.name, st.op))
                    if dyn is not None and st.since_resume == dyn[0]:
                        kind = dyn[1]
                        del self.abort_dyn[(st.name, st.op)]
                if kind is not None:
                    if at_with_exit(frame):
                        st.pending_abort = kind  # not a point where an exception can arrive: next event
                    else:
                        st.pending_abort = None
                        site = self._site(frame)
                        self.fired_aborts.append([st.name, st.op, st.line, kind, site])
                        self.abort_sites[site] = self.abort_sites.get(site, 0) + 1
                        raise ABORT_TYPES[kind]("injected abort")
        me = st.name
        to = None
        if self.mode == "explicit":
            to = self.explicit.get((me, st.op, st.line))
            if to is not None and (to == me or to not in self.live):
                to = None
        elif len(self.live) > 1:
            if self.policy == "uniform":
                if self.rng.random() < self.p:
                    others = [n for n in self.live if n != me]
                    to = others[self.rng.randrange(len(others))]
            elif self.policy == "hot":
                hot = frame is not None and frame.f_lineno in hot_lines(frame.f_code)
                pp = self.p
                if st.prev_hot:
                    pp = max(pp, 0.5)  # the store has just been executed
                elif hot:
                    pp = max(pp, 0.25)  # about to be executed (a check-then-act window closes here)
                st.prev_hot = hot
                if hot:
                    self.hot_points += 1
                if self.rng.random() < pp:
                    others = [n for n in self.live if n != me]
                    to = others[self.rng.randrange(len(others))]
            elif self.policy == "pct":
                if frame is not None and self.events in self.pct_change:
                    self.pct_low -= 1.0
                    self.pct_prio[me] = self.pct_low
                best = max(self.live, key=lambda n: (self.pct_prio[n], n))
                if best != me:
                    to = best
        if to is None:
            return
        site = self._site(frame)
        self.log.append([me, st.op, st.line, to])
        self.switches += 1
        self.switch_sites[site] = self.switch_sites.get(site, 0) + 1
        if self.audit is not None and (
            self.mode == "explicit" or self.audit_rng.random() < self.audit_p
        ):
            self.audit(f"switch {me}#{st.op}@{st.line} in {site}")
        with self.cv:
            self.current = to
            self.cv.notify_all()
            while self.current != me:
                self.cv.wait()
        st.since_resume = 0
        st.resumed = True

    # ------------------------------------------------------------------ helpers

    def schedule(self) -> list[list]:
        """The explicit schedule that reproduces this run."""
        return [list(x) for x in self.log]


def count_lines(fn: Callable[[], Any], trace_nx: bool = False) -> tuple[int, str, Any]:
    """Run fn single-threaded under tracing and return (#line events, status, value)."""
    s = Sched(mode="explicit", trace_nx=trace_nx)
    s.states = {"_": _CallerState("_")}
    s.live = ["_"]
    s.tl.state = s.states["_"]
    status, val = s.run_op(0, fn)
    return s.states["_"].line, status, val
