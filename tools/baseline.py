"""Run the pinned suite (guard off) and compare with /root/.vp/BASELINE.json's stable_pass list."""
import json, os, subprocess, sys, tempfile
import xml.etree.ElementTree as ET

repo = sys.argv[1] if len(sys.argv) > 1 else "/repo"
base = json.load(open("/root/.vp/BASELINE.json"))
fd, path = tempfile.mkstemp(suffix=".xml"); os.close(fd)
env = dict(os.environ); env.pop("Y0_VERIF", None)
if repo != "/repo":
    env["PYTHONPATH"] = os.path.join(repo, "src")
subprocess.run(["/venv/bin/python", "-m", "pytest", "-ra", "-q", "-p", "no:cacheprovider", "--timeout=900",
                "--continue-on-collection-errors", f"--junitxml={path}"], cwd=repo, env=env,
               stdout=subprocess.DEVNULL, stderr=subprocess.DEVNULL)
ok = set()
for tc in ET.parse(path).getroot().iter("testcase"):
    if not any(ch.tag in ("failure", "error", "skipped") for ch in tc):
        ok.add(f"{tc.get('classname')}::{tc.get('name')}")
os.remove(path)
missing = [t for t in base["stable_pass"] if t not in ok]
print(f"passed={len(ok)} stable_pass={len(base['stable_pass'])} missing={len(missing)}")
for m in missing[:20]:
    print("  MISSING", m)
sys.exit(1 if missing else 0)
