"""usage: mkmeta.py <seed-id> <PROP> <source> <what> <needs> <detection_history>
Writes /verif/seeded/<id>/meta.json from the files tools/seed_intake.sh left there."""
import json
import os
import re
import sys

sid, prop, source, what, needs, hist = sys.argv[1:7]
d = os.path.join("/verif/seeded", sid)


def last(name):
    try:
        lines = [ln for ln in open(os.path.join(d, name)).read().splitlines() if ln.strip() and "WARNING" not in ln]
        return lines[-1].strip()
    except OSError:
        return "missing"


sigs = []
try:
    for ln in open(os.path.join(d, "check_quick.out")):
        m = re.match(r"\s+signature[ =:]+(\S+)", ln)
        if m and m.group(1) not in sigs:
            sigs.append(m.group(1))
except OSError:
    pass
meta = {
    "id": sid, "property": prop, "source": source, "what": what, "needs_to_manifest": needs,
    "confirmed": {"demo_with_change": last("demo_with.out"), "demo_without_change": last("demo_without.out"),
                  "suite_with_change": last("suite_with.out")},
    "ran": ["demo.py with/without the patch in the agent's scratch worktree (tools/seed_intake.sh; patch reverse-applied, never git stash)",
            "tools/baseline.py <worktree> (387 stable tests)",
            f"./check {prop} --tier quick with Y0SIM_SRC=<patched sources>"],
    "detection_history": hist,
    "detected_by": sigs[:8],
}
json.dump(meta, open(os.path.join(d, "meta.json"), "w"), indent=1)
print(json.dumps(meta["confirmed"]), len(sigs), "signatures", sigs[:3])
