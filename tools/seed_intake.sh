#!/bin/sh
# usage: seed_intake.sh <worktree> <seed-id> <PROP>
# Confirms an agent-written seeded change (demo fails with it / passes without; suite still passes),
# stores it under /verif/seeded/<id>/ and runs the property's quick check against the patched sources.
set -u
wt="$1"; id="$2"; prop="$3"
d=/verif/seeded/$id
mkdir -p "$d"
git -C "$wt" diff > "$d/patch.diff"
cp "$wt/demo.py" "$d/demo.py" 2>/dev/null
echo "== patch: $(wc -l < "$d/patch.diff") lines, files: $(git -C "$wt" diff --stat | tail -1)"
echo "== demo WITH change"
(cd "$wt" && PYTHONPATH="$wt/src" timeout 600 /venv/bin/python demo.py > "$d/demo_with.out" 2>&1; echo "exit=$?" >> "$d/demo_with.out"); tail -4 "$d/demo_with.out" | cut -c1-300
echo "== demo WITHOUT change"
git -C "$wt" apply -R "$d/patch.diff" || { echo "cannot revert patch"; exit 2; }
(cd "$wt" && PYTHONPATH="$wt/src" timeout 600 /venv/bin/python demo.py > "$d/demo_without.out" 2>&1; echo "exit=$?" >> "$d/demo_without.out"); tail -2 "$d/demo_without.out" | cut -c1-300
git -C "$wt" apply "$d/patch.diff" || { echo "cannot re-apply patch"; exit 2; }
echo "== baseline suite WITH change"
/venv/bin/python /verif/tools/baseline.py "$wt" 2>&1 | grep -v WARNING | tee "$d/suite_with.out"
echo "== $prop quick check against patched sources"
Y0SIM_SRC="$wt/src" Y0SIM_EVIDENCE_DIR="$d/evidence" Y0SIM_REPLAY_DIR="$d/replays" /verif/check "$prop" --tier quick > "$d/check_quick.out" 2>&1
echo "check exit=$?" | tee -a "$d/check_quick.out"
grep -E "^VIOLATION|^  signature|KNOWN|HARNESS" "$d/check_quick.out" | cut -c1-260
