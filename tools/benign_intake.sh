#!/bin/sh
# usage: benign_intake.sh <worktree> <id> <PROP...>
# A behaviour-preserving refactor written by an independent agent: the pinned suite must still pass and the
# quick tier of every listed property must stay silent (exit 0) when run against the patched sources.
set -u
wt="$1"; id="$2"; shift 2
d=/verif/benign/$id
mkdir -p "$d"
git -C "$wt" diff > "$d/patch.diff"
cp "$wt/demo.py" "$d/demo.py" 2>/dev/null
echo "== patch: $(wc -l < "$d/patch.diff") lines, $(git -C "$wt" diff --stat | tail -1)"
(cd "$wt" && PYTHONPATH="$wt/src" timeout 1200 /venv/bin/python demo.py > "$d/demo_with.out" 2>&1; echo "exit=$?" >> "$d/demo_with.out"); tail -1 "$d/demo_with.out"
/venv/bin/python /verif/tools/baseline.py "$wt" 2>&1 | grep -v WARNING | tee "$d/suite_with.out"
for prop in "$@"; do
  Y0SIM_SRC="$wt/src" Y0SIM_EVIDENCE_DIR="$d/evidence" Y0SIM_REPLAY_DIR="$d/replays" /verif/check "$prop" --tier quick > "$d/check_$prop.out" 2>&1
  echo "$prop check exit=$?" | tee -a "$d/check_$prop.out"
  grep -E "^VIOLATION|^  signature|KNOWN|HARNESS" "$d/check_$prop.out" | cut -c1-300
done
